/-
  Tie/A64.lean — bridges for the AArch64/Linux configuration: the shared OS-facing functions
  (`inject_asm_code` with its `dsb sy; isb`, `protected_region_size`, `patch_function`) and the entry
  patch `apply_branch_patch` as translated from the source on this run = `A64.entryLinux`.
-/
import InjModel.Generated.Fns
import InjModel.Lemmas.Rt
import InjModel.Model.A64
import InjModel.Model.Machine
open Inj Inj.Rt

namespace Inj.Tie

theorem T_a64_clear_cache (mode : Mode) (a b : Nat) (os : Os) :
    run (GenA64L.clear_cache mode a b) os =
      (Res.ok (), { os with log := os.log ++ [("__clear_cache", [Val.n a, Val.n b]), ("asm", [])] }) := by
  rw [GenA64L.clear_cache, run_bind_ok _ _ _ _ _ (run_extU _ _ _), run_bind_ok _ _ _ _ _ (run_extU _ _ _), run_pure]
  simp

theorem T_a64_inject (mode : Mode) (bs : List Nat) (dest : Nat) (os : Os) (h : dest + bs.length < 18446744073709551616) :
    run (GenA64L.inject_asm_code mode bs dest) os =
      (Res.ok (), { os with log := os.log ++ [("copy_nonoverlapping", [Val.bs bs, Val.n dest, Val.n bs.length]),
                                               ("__clear_cache", [Val.n dest, Val.n ((dest + bs.length : Nat) : Int)]), ("asm", [])] }) := by
  rw [GenA64L.inject_asm_code, run_bind_ok _ _ _ _ _ (run_extU _ _ _),
    run_bind_lift_ok _ _ _ _ (uadd64_ok mode dest bs.length h),
    run_bind_ok _ _ _ _ _ (T_a64_clear_cache mode dest (dest + bs.length) _), run_pure]
  simp

theorem T_a64_region (mode : Mode) (addr len : Nat) (h : addr + len + 4096 < 18446744073709551616) (hl : 1 ≤ len) :
    GenA64L.protected_region_size mode addr len 4096 = Res.ok (Machine.protectSpan addr len).2 := by
  have e1 : usub 64 mode 4096 1 = Res.ok 4095 := usub64_ok _ _ _ (by omega) (by omega)
  have e2 : uadd 64 mode addr (max len 1) = Res.ok (addr + len) := by
    rw [Nat.max_eq_left hl]; exact uadd64_ok _ _ _ (by omega)
  have e3 : uadd 64 mode (addr + len) 4096 = Res.ok (addr + len + 4096) := uadd64_ok _ _ _ (by omega)
  have e4 : usub 64 mode (addr + len + 4096) 1 = Res.ok (addr + len + 4095) := by
    rw [usub64_ok _ _ _ (by omega) (by omega)]; congr 1
  have eu : unot 64 4095 = 18446744073709551615 - 4095 := by simp [unot]
  have ple : addr / 4096 * 4096 ≤ (addr + len + 4095) / 4096 * 4096 := by omega
  have e5 : usub 64 mode ((addr + len + 4095) / 4096 * 4096) (addr / 4096 * 4096) =
      Res.ok ((addr + len + 4095) / 4096 * 4096 - addr / 4096 * 4096) := usub64_ok _ _ _ ple (by omega)
  rw [GenA64L.protected_region_size, e1, Res.bind_ok]
  show (do let t_2 ← uadd 64 mode addr (max len 1); let t_3 ← uadd 64 mode t_2 4096; let t_4 ← usub 64 mode t_3 1
           let t_5 ← usub 64 mode 4096 1
           let t_6 ← usub 64 mode (band t_4 (unot 64 t_5)) (band addr (unot 64 4095)); pure t_6 : Res Nat) = _
  rw [e2, Res.bind_ok, e3, Res.bind_ok, e4, Res.bind_ok, e1, Res.bind_ok, eu]
  unfold band
  rw [and_pagemask addr (by omega), and_pagemask (addr + len + 4095) (by omega), e5]
  simp [Machine.protectSpan, pageUp, pageStart, pageSize]

theorem T_a64_mprotect (mode : Mode) (func len : Nat) (log : List (String × List Val)) (tail : List Val)
    (h : func + len + 4096 < 18446744073709551616) (hl : 1 ≤ len) :
    run (GenA64L.make_memory_writable_and_executable_linux mode func len)
        { answers := Val.n 4096 :: Val.n 0 :: tail, log := log } =
      (Res.ok (), { answers := tail, log := log ++
        [("sysconf", [Val.n 30]),
         ("mprotect", [Val.n ((Machine.protectSpan func len).1 : Nat), Val.n ((Machine.protectSpan func len).2 : Nat), Val.n 7])] }) := by
  have hp : castSU 64 (4096 : Int) = 4096 := by decide
  have e1 : usub 64 mode 4096 1 = Res.ok 4095 := usub64_ok _ _ _ (by omega) (by omega)
  have eu : unot 64 4095 = 18446744073709551615 - 4095 := by simp [unot]
  rw [GenA64L.make_memory_writable_and_executable_linux]
  rw [run_bind_ok _ _ _ _ _ (run_extI_cons _ _ _ _ _)]
  rw [hp, run_bind_lift_ok _ _ _ _ e1]
  rw [run_bind_lift_ok _ _ _ _ (T_a64_region mode func len h hl)]
  rw [run_bind_ok _ _ _ _ _ (run_extI_cons _ _ _ _ _)]
  simp only [bne_self_eq_false, Bool.false_eq_true, if_false, run_pure, eu, band, and_pagemask func (by omega)]
  simp [Machine.protectSpan, pageStart, pageSize, sbor, castSU, wrapS]

theorem T_a64_patch_function (mode : Mode) (func : Nat) (patch : List Nat) (log : List (String × List Val)) (tail : List Val)
    (h : func + patch.length + 4096 < 18446744073709551616) (hl : 1 ≤ patch.length) :
    run (GenA64L.patch_function mode func patch) { answers := Val.n 4096 :: Val.n 0 :: tail, log := log } =
      (Res.ok (), { answers := tail, log := log ++
        [("sysconf", [Val.n 30]),
         ("mprotect", [Val.n ((Machine.protectSpan func patch.length).1 : Nat), Val.n ((Machine.protectSpan func patch.length).2 : Nat), Val.n 7]),
         ("copy_nonoverlapping", [Val.bs patch, Val.n func, Val.n patch.length]),
         ("__clear_cache", [Val.n func, Val.n ((func + patch.length : Nat) : Int)]), ("asm", [])] }) := by
  rw [GenA64L.patch_function, GenA64L.make_memory_writable_and_executable]
  have h1 := T_a64_mprotect mode func patch.length log tail h hl
  have h2 : run (GenA64L.make_memory_writable_and_executable_linux mode func patch.length >>= fun _ => (pure () : M Unit))
      { answers := Val.n 4096 :: Val.n 0 :: tail, log := log } = _ := run_bind_ok _ _ _ _ _ h1
  rw [run_pure] at h2
  rw [run_bind_ok _ _ _ _ _ h2]
  rw [run_bind_ok _ _ _ _ _ (T_a64_inject mode patch func _ (by omega)), run_pure]
  simp


theorem tdiv4 (x : Int) : Int.tdiv x 4 = if 0 ≤ x then x / 4 else -((-x) / 4) := by
  by_cases h : 0 ≤ x
  · rw [if_pos h, Int.tdiv_eq_ediv_of_nonneg h]
  · rw [if_neg h]
    have : x = -(-x) := by omega
    rw [this, Int.neg_tdiv, Int.tdiv_eq_ediv_of_nonneg (by omega)]
    simp

theorem copy3 (w0 w1 w2 : Nat) :
    (do let u3 ← copyInto (List.replicate 12 (0 : Nat)) 0 4 (leBytes 4 w0)
        let u4 ← copyInto u3 4 8 (leBytes 4 w1)
        let u5 ← copyInto u4 8 12 (leBytes 4 w2)
        pure u5 : Res (List Nat)) = Res.ok (le32 w0 ++ le32 w1 ++ le32 w2) := by
  simp [copyInto, leBytes4, le32, List.replicate]

/-- Linux `apply_branch_patch(func, jit, ..)` as translated, for user-space addresses: it refuses
    (panics before any OS call) exactly when `A64.entryLinux` refuses, and otherwise patches `func`
    with exactly the bytes of `A64.entryLinux func jit` (B imm26; NOP; NOP) through `patch_function`
    and builds the guard from (func, saved bytes, 12, jit, jit_size). -/
theorem T_a64_entry (mode : Mode) (func jit jsz : Nat) (saved : List Nat)
    (log : List (String × List Val)) (tail : List Val)
    (hf : func < 9223372036854775808 - 8192) (hj : jit < 9223372036854775808) :
    run (GenA64L.apply_branch_patch mode func jit jsz saved) { answers := Val.n 4096 :: Val.n 0 :: tail, log := log } =
      match A64.entryLinux func jit with
      | Res.panic _ => (Res.panic "JIT memory is out of branch range: offse", { answers := Val.n 4096 :: Val.n 0 :: tail, log := log })
      | Res.ok ws => (Res.ok (), { answers := tail, log := log ++
          [("sysconf", [Val.n 30]),
           ("mprotect", [Val.n ((Machine.protectSpan func 12).1 : Nat), Val.n ((Machine.protectSpan func 12).2 : Nat), Val.n 7]),
           ("copy_nonoverlapping", [Val.bs (A64.wordsToBytes ws), Val.n func, Val.n 12]),
           ("__clear_cache", [Val.n func, Val.n ((func + 12 : Nat) : Int)]), ("asm", []),
           ("PatchGuard::new", [Val.n func, Val.bs saved, Val.n 12, Val.n jit, Val.n jsz])] }) := by
  have cf : castUS 64 func = (func : Int) := by rw [castUS64 _ (by omega)]; unfold toI64; rw [if_pos (by omega)]
  have cj : castUS 64 jit = (jit : Int) := by rw [castUS64 _ (by omega)]; unfold toI64; rw [if_pos (by omega)]
  have tf : toI64 func = (func : Int) := by unfold toI64; rw [if_pos (by omega)]
  have tj : toI64 jit = (jit : Int) := by unfold toI64; rw [if_pos (by omega)]
  have hsub : ssub 64 mode (jit : Int) (func : Int) = Res.ok ((jit : Int) - func) := by
    unfold ssub; rw [chkS64, if_pos (by omega)]
  have hdiv : sdiv 64 ((jit : Int) - func) 4 = Res.ok (Int.tdiv ((jit : Int) - func) 4) := by
    unfold sdiv
    have hb : ¬ ((4 : Int) = 0) := by decide
    rw [if_neg hb]
    have : inS 64 (Int.tdiv ((jit : Int) - func) 4) = true := by
      unfold inS
      have e : (((2:Nat)^(64-1) : Nat) : Int) = 9223372036854775808 := by decide
      rw [e]
      simp only [decide_eq_true_eq]
      rw [tdiv4]
      split <;> omega
    rw [if_pos this]
  rw [GenA64L.apply_branch_patch, cf, cj, run_bind_lift_ok _ _ _ _ hsub, run_bind_lift_ok _ _ _ _ hdiv]
  unfold A64.entryLinux
  rw [tf, tj]
  have hbd : ((Generated.Consts.a64BDiv : Nat) : Int) = 4 := by decide
  have hlo : Generated.Consts.a64BranchLo = -33554432 := by decide
  have hhi : Generated.Consts.a64BranchHi = 33554431 := by decide
  rw [hbd, hlo, hhi]
  generalize Int.tdiv ((jit : Int) - func) 4 = off
  by_cases c : -33554432 ≤ off ∧ off ≤ 33554431
  · have cb : (!(decide ((-33554432 : Int) ≤ off) && decide (off ≤ (33554431 : Int)))) = false := by
      simp [c.1, c.2]
    rw [if_pos c]
    simp only [cb, Bool.false_eq_true, if_false]
    have hb := copy3 (bor 335544320 (band (castSU 32 off) 67108863)) 3573751839 3573751839
    -- the three slice copies, one at a time
    have h3 : copyInto (List.replicate 12 (0 : Nat)) 0 4 (leBytes 4 (bor 335544320 (band (castSU 32 off) 67108863))) =
        Res.ok (le32 (bor 335544320 (band (castSU 32 off) 67108863)) ++ List.replicate 8 0) := by
      simp [copyInto, leBytes4, le32, List.replicate]
    rw [run_bind_lift_ok _ _ _ _ h3]
    have h4 : copyInto (le32 (bor 335544320 (band (castSU 32 off) 67108863)) ++ List.replicate 8 0) 4 8 (leBytes 4 3573751839) =
        Res.ok (le32 (bor 335544320 (band (castSU 32 off) 67108863)) ++ le32 3573751839 ++ List.replicate 4 0) := by
      simp [copyInto, leBytes4, le32, List.replicate]
    rw [run_bind_lift_ok _ _ _ _ h4]
    have h5 : copyInto (le32 (bor 335544320 (band (castSU 32 off) 67108863)) ++ le32 3573751839 ++ List.replicate 4 0) 8 12 (leBytes 4 3573751839) =
        Res.ok (le32 (bor 335544320 (band (castSU 32 off) 67108863)) ++ le32 3573751839 ++ le32 3573751839) := by
      simp [copyInto, leBytes4, le32, List.replicate]
    rw [run_bind_lift_ok _ _ _ _ h5]
    have hlen : (le32 (bor 335544320 (band (castSU 32 off) 67108863)) ++ le32 3573751839 ++ le32 3573751839).length = 12 := by
      simp [le32]
    have hpf := T_a64_patch_function mode func (le32 (bor 335544320 (band (castSU 32 off) 67108863)) ++ le32 3573751839 ++ le32 3573751839)
      log tail (by rw [hlen]; omega) (by rw [hlen]; omega)
    rw [run_bind_ok _ _ _ _ _ hpf, run_bind_ok _ _ _ _ _ (run_extU _ _ _), run_pure, hlen]
    simp [A64.wordsToBytes, bor, band, castSU, ofInt32, Generated.Consts.a64BOpcode, Generated.Consts.a64BMask, Generated.Consts.a64Nop]
  · have cb : (!(decide ((-33554432 : Int) ≤ off) && decide (off ≤ (33554431 : Int)))) = true := by
      simp only [Bool.not_eq_true', Bool.and_eq_false_iff, decide_eq_false_iff_not]
      omega
    rw [if_neg c]
    simp only [cb, if_true]
    rw [run_panicNow]
end Inj.Tie

#print axioms Inj.Tie.T_a64_clear_cache
#print axioms Inj.Tie.T_a64_inject
#print axioms Inj.Tie.T_a64_region
#print axioms Inj.Tie.T_a64_mprotect
#print axioms Inj.Tie.T_a64_patch_function
#print axioms Inj.Tie.T_a64_entry
