/-
  Tie/MacFlush.lean — C17 on the macOS memory path as translated (`GenMac`): what `inject_asm_code`,
  `patch_function` and `PatchGuard::drop` ask of the platform, for every input; in particular every range
  they write is named in a `sys_icache_invalidate` request issued after the write.
-/
import InjModel.Generated.Fns
import InjModel.Lemmas.Rt
open Inj Inj.Rt

namespace Inj.Tie

def mlogs (os : Os) (l : List (String × List Val)) : Os := { os with log := os.log ++ l }

theorem T_mac_clear_cache (mode : Mode) (start end_ : Nat) (os : Os)
    (h : start ≤ end_) (he : end_ < 18446744073709551616) :
    run (GenMac.clear_cache mode start end_) os =
      (Res.ok (), mlogs os [("sys_icache_invalidate", [Val.n (Int.ofNat start), Val.n (Int.ofNat (end_ - start))]), ("asm", [])]) := by
  rw [GenMac.clear_cache]
  rw [run_bind_lift_ok _ _ _ _ (usub64_ok mode end_ start h he)]
  rw [run_bind_ok _ _ _ _ _ (run_extU _ _ _), run_bind_ok _ _ _ _ _ (run_extU _ _ _), run_pure]
  simp [mlogs]

/-- **trampoline contents (macOS)**: write-protection off, the copy to `dest`, write-protection on, then an
    instruction-cache invalidation for exactly `[dest, dest + len)` and the barrier -/
theorem T_mac_inject (mode : Mode) (bytes : List Nat) (dest : Nat) (os : Os)
    (h : dest + bytes.length < 18446744073709551616) :
    run (GenMac.inject_asm_code mode bytes dest) os =
      (Res.ok (), mlogs os
        [("pthread_jit_write_protect_np", [Val.n 0]),
         ("copy_nonoverlapping", [Val.bs bytes, Val.n (Int.ofNat dest), Val.n (Int.ofNat bytes.length)]),
         ("pthread_jit_write_protect_np", [Val.n 1]),
         ("sys_icache_invalidate", [Val.n (Int.ofNat dest), Val.n (Int.ofNat bytes.length)]), ("asm", [])]) := by
  rw [GenMac.inject_asm_code]
  rw [run_bind_ok _ _ _ _ _ (run_extU _ _ _), run_bind_ok _ _ _ _ _ (run_extU _ _ _), run_bind_ok _ _ _ _ _ (run_extU _ _ _)]
  rw [run_bind_lift_ok _ _ _ _ (uadd64_ok mode dest bytes.length h)]
  rw [run_bind_ok _ _ _ _ _ (T_mac_clear_cache mode dest (dest + bytes.length) _ (by omega) h), run_pure]
  have : dest + bytes.length - dest = bytes.length := by omega
  simp [mlogs, this]

def remapArgs (len src dst : Nat) (flags : Int) : List Val :=
  [Val.n (Int.ofNat (0 : Nat)), Val.n (Int.ofNat dst), Val.n (Int.ofNat len), Val.n 0, Val.n flags,
   Val.n (Int.ofNat (0 : Nat)), Val.n (Int.ofNat src), Val.n 0, Val.n (0 : Int), Val.n (0 : Int), Val.n (2 : Int)]

/-- **entry patch / restoration (macOS)**: the page is remapped to an alias the kernel chooses (`remap`), the
    alias made writable, the bytes written there (with the trampoline-style invalidation of the alias), then
    the data cache flushed and the instruction cache invalidated **for the range at `func`** — after the
    write — and the alias mapped back over the function -/
theorem T_mac_patch_function (mode : Mode) (func : Nat) (patch : List Nat) (remap back : Int)
    (rest : List Val) (log : List (String × List Val))
    (h : remap.toNat + patch.length < 18446744073709551616) :
    run (GenMac.patch_function mode func patch) { answers := Val.n remap :: Val.n back :: rest, log := log } =
      (Res.ok (), { answers := rest, log := log ++
        [("mach_vm_remap", remapArgs patch.length func 0 (sbor 32 1 1048576)),
         ("mach_vm_protect", [Val.n (Int.ofNat (0 : Nat)), Val.n (Int.ofNat remap.toNat), Val.n 8, Val.n 0, Val.n (sbor 32 (sbor 32 1 2) 16)]),
         ("pthread_jit_write_protect_np", [Val.n 0]),
         ("copy_nonoverlapping", [Val.bs patch, Val.n (Int.ofNat remap.toNat), Val.n (Int.ofNat patch.length)]),
         ("pthread_jit_write_protect_np", [Val.n 1]),
         ("sys_icache_invalidate", [Val.n (Int.ofNat remap.toNat), Val.n (Int.ofNat patch.length)]), ("asm", []),
         ("sys_dcache_flush", [Val.n (Int.ofNat func), Val.n (Int.ofNat patch.length)]),
         ("mach_vm_protect", [Val.n (Int.ofNat (0 : Nat)), Val.n (Int.ofNat remap.toNat), Val.n 8, Val.n 0, Val.n (sbor 32 1 4)]),
         ("sys_icache_invalidate", [Val.n (Int.ofNat func), Val.n (Int.ofNat patch.length)]),
         ("mach_vm_remap", remapArgs patch.length remap.toNat func (sbor 32 16384 1048576))] }) := by
  rw [GenMac.patch_function]
  dsimp only
  rw [run_bind_ok _ _ _ _ _ (run_extN_cons _ _ _ _ _)]
  rw [run_bind_ok _ _ _ _ _ (run_extU _ _ _)]
  rw [run_bind_ok _ _ _ _ _ (T_mac_inject mode patch remap.toNat _ h)]
  rw [run_bind_ok _ _ _ _ _ (run_extU _ _ _), run_bind_ok _ _ _ _ _ (run_extU _ _ _), run_bind_ok _ _ _ _ _ (run_extU _ _ _)]
  unfold mlogs
  rw [run_bind_ok _ _ _ _ _ (run_extN_cons _ _ _ _ _), run_pure]
  simp [remapArgs]

end Inj.Tie

#print axioms Inj.Tie.T_mac_clear_cache
#print axioms Inj.Tie.T_mac_inject
#print axioms Inj.Tie.T_mac_patch_function
