/-
  Tie/X86.lean — bridge theorems: the functions of `patch_amd64.rs` as translated from the
  source on this run (`Generated/Fns.lean`, namespace GenX86) are equal, for every input, to the
  hand-written model functions the property theorems are stated about.
-/
import InjModel.Generated.Fns
import InjModel.Lemmas.Rt
import InjModel.Lemmas.X86
namespace Inj.Tie
open Inj Inj.Rt

/-- `generate_branch_to_target_function` as translated = `X86.genBranch`, for all 64-bit address
    pairs and both build profiles (including which inputs panic in a debug build). -/
theorem T_x86_genBranch (mode : Mode) (o t : Nat) (ho : o < 18446744073709551616) (ht : t < 18446744073709551616) :
    GenX86.generate_branch_to_target_function mode o t = X86.genBranch mode o t := by
  unfold GenX86.generate_branch_to_target_function
  rw [X86.genBranch_eq_lit]; unfold X86.genBranchLit
  simp only [castUS64 _ ho, castUS64 _ ht, sadd, ssub, chkS64, castSU32_SS32, leBytes4, leBytes8 _ ht]
  obtain ⟨ha1, ha2⟩ := toI64_bounds o ho
  obtain ⟨hb1, hb2⟩ := toI64_bounds t ht
  generalize toI64 o = a at *
  generalize toI64 t = b at *
  by_cases c1 : a + 5 < 9223372036854775808
  · rw [if_pos (by omega), wrapI64_id (a+5) (by omega) c1]
    simp only [Res.bind_ok]
    by_cases c2 : -9223372036854775808 ≤ b - (a + 5) ∧ b - (a + 5) < 9223372036854775808
    · rw [if_pos c2, if_neg (by omega), wrapI64_id _ c2.1 c2.2]
      simp only [Res.bind_ok]
      by_cases c3 : -2147483648 ≤ b - (a + 5) ∧ b - (a + 5) ≤ 2147483647
      · simp [c3]
      · rw [if_neg c3, if_neg]
        · simp
        · simp only [Bool.and_eq_true, decide_eq_true_eq]; omega
    · rw [if_neg c2]
      cases mode
      · simp; omega
      · simp only [reduceCtorEq, if_false, Res.bind_ok, false_and]
        simp only [ge_iff_le, Bool.and_eq_true, decide_eq_true_eq]
        rfl
  · rw [if_neg (by omega)]
    cases mode
    · simp; omega
    · simp only [reduceCtorEq, if_false, Res.bind_ok, false_and]
      by_cases c2 : -9223372036854775808 ≤ b - wrapI64 (a + 5) ∧ b - wrapI64 (a + 5) < 9223372036854775808
      · rw [if_pos c2, wrapI64_id _ c2.1 c2.2]
        simp only [ge_iff_le, Bool.and_eq_true, decide_eq_true_eq, Res.bind_ok]
        rfl
      · rw [if_neg c2]
        simp only [ge_iff_le, Bool.and_eq_true, decide_eq_true_eq, Res.bind_ok]
        rfl

/-- `inject_asm_code(bs, dest)` as translated: one raw copy of exactly `bs` to `dest`, then one
    cache flush of exactly `[dest, dest + len)`. -/
theorem T_x86_inject (mode : Mode) (bs : List Nat) (dest : Nat) (os : Os) (h : dest + bs.length < 18446744073709551616) :
    run (GenX86.inject_asm_code mode bs dest) os =
      (Res.ok (), { os with log := os.log ++ [("copy_nonoverlapping", [Val.bs bs, Val.n dest, Val.n bs.length]),
                                               ("__clear_cache", [Val.n dest, Val.n ((dest + bs.length : Nat) : Int)])] }) := by
  simp only [GenX86.inject_asm_code]
  simp only [run_bind, run_extU, run_lift, uadd64_ok mode dest bs.length h]
  simp only [GenX86.clear_cache, run_bind, run_extU, run_pure]
  simp

theorem stub_bytes (v : Bool) :
    setIdx [(72 : Nat), 199, 192, 0, 0, 0, 0, 195] 3 (ofBool v) = Res.ok (X86.boolStub v) := by
  cases v <;> rfl

theorem boolStub_len (v : Bool) : (X86.boolStub v).length = 8 := by cases v <;> rfl

/-- `generate_will_return_boolean_jit_code` as translated copies exactly `X86.boolStub v` to the
    trampoline and then flushes exactly that range (two OS-visible events, nothing else). -/
theorem T_x86_boolStub (mode : Mode) (jit : Nat) (v : Bool) (os : Os) (h : jit + 8 < 18446744073709551616) :
    run (GenX86.generate_will_return_boolean_jit_code mode jit v) os =
      (Res.ok (), { os with log := os.log ++ [("copy_nonoverlapping", [Val.bs (X86.boolStub v), Val.n jit, Val.n 8]),
                                               ("__clear_cache", [Val.n jit, Val.n ((jit + 8 : Nat) : Int)])] }) := by
  have hl : jit + (X86.boolStub v).length < 18446744073709551616 := by
    have := boolStub_len v; omega
  rw [GenX86.generate_will_return_boolean_jit_code]
  rw [run_bind_lift_ok _ _ _ _ (stub_bytes v)]
  show run (GenX86.inject_asm_code mode (X86.boolStub v) jit >>= fun _ => pure ()) os = _
  rw [run_bind_ok _ _ _ _ _ (T_x86_inject mode _ jit os hl), run_pure, boolStub_len]
  rfl

end Inj.Tie
#print axioms Inj.Tie.T_x86_boolStub
#print axioms Inj.Tie.T_x86_genBranch
#print axioms Inj.Tie.T_x86_inject
