/-
  Tie/X86.lean — bridge theorems: the functions of `patch_amd64.rs` as translated from the
  source on this run (`Generated/Fns.lean`, namespace GenX86) are equal, for every input, to the
  hand-written model functions the property theorems are stated about.
-/
import InjModel.Generated.Fns
import InjModel.Lemmas.Rt
import InjModel.Lemmas.X86
import InjModel.Model.Machine
namespace Inj.Tie
open Inj Inj.Rt

/-- `generate_branch_to_target_function` as translated = `X86.genBranch`, for all 64-bit address
    pairs and both build profiles (including which inputs panic in a debug build). -/
theorem T_x86_genBranch (mode : Mode) (o t : Nat) (ho : o < 18446744073709551616) (ht : t < 18446744073709551616) :
    GenX86.generate_branch_to_target_function mode o t = X86.genBranch mode o t := by
  unfold GenX86.generate_branch_to_target_function
  rw [X86.genBranch_eq_lit]; unfold X86.genBranchLit
  simp only [castUS64 _ ho, castUS64 _ ht, sadd, ssub, chkS64, castSU32_SS32, leBytes4, leBytes8 _ ht]
  obtain ⟨ha1, ha2⟩ := toI64_bounds o ho
  obtain ⟨hb1, hb2⟩ := toI64_bounds t ht
  generalize toI64 o = a at *
  generalize toI64 t = b at *
  by_cases c1 : a + 5 < 9223372036854775808
  · rw [if_pos (by omega), wrapI64_id (a+5) (by omega) c1]
    simp only [Res.bind_ok]
    by_cases c2 : -9223372036854775808 ≤ b - (a + 5) ∧ b - (a + 5) < 9223372036854775808
    · rw [if_pos c2, if_neg (by omega), wrapI64_id _ c2.1 c2.2]
      simp only [Res.bind_ok]
      by_cases c3 : -2147483648 ≤ b - (a + 5) ∧ b - (a + 5) ≤ 2147483647
      · simp [c3]
      · rw [if_neg c3, if_neg]
        · simp
        · simp only [Bool.and_eq_true, decide_eq_true_eq]; omega
    · rw [if_neg c2]
      cases mode
      · simp; omega
      · simp only [reduceCtorEq, if_false, Res.bind_ok, false_and]
        simp only [ge_iff_le, Bool.and_eq_true, decide_eq_true_eq]
        rfl
  · rw [if_neg (by omega)]
    cases mode
    · simp; omega
    · simp only [reduceCtorEq, if_false, Res.bind_ok, false_and]
      by_cases c2 : -9223372036854775808 ≤ b - wrapI64 (a + 5) ∧ b - wrapI64 (a + 5) < 9223372036854775808
      · rw [if_pos c2, wrapI64_id _ c2.1 c2.2]
        simp only [ge_iff_le, Bool.and_eq_true, decide_eq_true_eq, Res.bind_ok]
        rfl
      · rw [if_neg c2]
        simp only [ge_iff_le, Bool.and_eq_true, decide_eq_true_eq, Res.bind_ok]
        rfl

/-- `inject_asm_code(bs, dest)` as translated: one raw copy of exactly `bs` to `dest`, then one
    cache flush of exactly `[dest, dest + len)`. -/
theorem T_x86_inject (mode : Mode) (bs : List Nat) (dest : Nat) (os : Os) (h : dest + bs.length < 18446744073709551616) :
    run (GenX86.inject_asm_code mode bs dest) os =
      (Res.ok (), { os with log := os.log ++ [("copy_nonoverlapping", [Val.bs bs, Val.n dest, Val.n bs.length]),
                                               ("__clear_cache", [Val.n dest, Val.n ((dest + bs.length : Nat) : Int)])] }) := by
  simp only [GenX86.inject_asm_code]
  simp only [run_bind, run_extU, run_lift, uadd64_ok mode dest bs.length h]
  simp only [GenX86.clear_cache, run_bind, run_extU, run_pure]
  simp

theorem stub_bytes (v : Bool) :
    setIdx [(72 : Nat), 199, 192, 0, 0, 0, 0, 195] 3 (ofBool v) = Res.ok (X86.boolStub v) := by
  cases v <;> rfl

theorem boolStub_len (v : Bool) : (X86.boolStub v).length = 8 := by cases v <;> rfl

/-- `generate_will_return_boolean_jit_code` as translated copies exactly `X86.boolStub v` to the
    trampoline and then flushes exactly that range (two OS-visible events, nothing else). -/
theorem T_x86_boolStub (mode : Mode) (jit : Nat) (v : Bool) (os : Os) (h : jit + 8 < 18446744073709551616) :
    run (GenX86.generate_will_return_boolean_jit_code mode jit v) os =
      (Res.ok (), { os with log := os.log ++ [("copy_nonoverlapping", [Val.bs (X86.boolStub v), Val.n jit, Val.n 8]),
                                               ("__clear_cache", [Val.n jit, Val.n ((jit + 8 : Nat) : Int)])] }) := by
  have hl : jit + (X86.boolStub v).length < 18446744073709551616 := by
    have := boolStub_len v; omega
  rw [GenX86.generate_will_return_boolean_jit_code]
  rw [run_bind_lift_ok _ _ _ _ (stub_bytes v)]
  show run (GenX86.inject_asm_code mode (X86.boolStub v) jit >>= fun _ => pure ()) os = _
  rw [run_bind_ok _ _ _ _ _ (T_x86_inject mode _ jit os hl), run_pure, boolStub_len]
  rfl

/-- `protected_region_size(addr, len, 4096)` as translated = the length of `Machine.protectSpan`:
    the pages from the one holding `addr` to the one holding the last patched byte. -/
theorem T_x86_region (mode : Mode) (addr len : Nat) (h : addr + len + 4096 < 18446744073709551616) (hl : 1 ≤ len) :
    GenX86.protected_region_size mode addr len 4096 = Res.ok (Machine.protectSpan addr len).2 := by
  have e1 : usub 64 mode 4096 1 = Res.ok 4095 := usub64_ok _ _ _ (by omega) (by omega)
  have e2 : uadd 64 mode addr (max len 1) = Res.ok (addr + len) := by
    rw [Nat.max_eq_left hl]; exact uadd64_ok _ _ _ (by omega)
  have e3 : uadd 64 mode (addr + len) 4096 = Res.ok (addr + len + 4096) := uadd64_ok _ _ _ (by omega)
  have e4 : usub 64 mode (addr + len + 4096) 1 = Res.ok (addr + len + 4095) := by
    rw [usub64_ok _ _ _ (by omega) (by omega)]; congr 1
  have eu : unot 64 4095 = 18446744073709551615 - 4095 := by simp [unot]
  have ple : addr / 4096 * 4096 ≤ (addr + len + 4095) / 4096 * 4096 := by omega
  have e5 : usub 64 mode ((addr + len + 4095) / 4096 * 4096) (addr / 4096 * 4096) =
      Res.ok ((addr + len + 4095) / 4096 * 4096 - addr / 4096 * 4096) := usub64_ok _ _ _ ple (by omega)
  rw [GenX86.protected_region_size, e1, Res.bind_ok]
  show (do let t_2 ← uadd 64 mode addr (max len 1); let t_3 ← uadd 64 mode t_2 4096; let t_4 ← usub 64 mode t_3 1
           let t_5 ← usub 64 mode 4096 1
           let t_6 ← usub 64 mode (band t_4 (unot 64 t_5)) (band addr (unot 64 4095)); pure t_6 : Res Nat) = _
  rw [e2, Res.bind_ok, e3, Res.bind_ok, e4, Res.bind_ok, e1, Res.bind_ok, eu]
  unfold band
  rw [and_pagemask addr (by omega), and_pagemask (addr + len + 4095) (by omega), e5]
  simp [Machine.protectSpan, pageUp, pageStart, pageSize]

/-- `make_memory_writable_and_executable_linux` as translated: `sysconf`, then one `mprotect` of exactly
    `Machine.protectSpan func len` with PROT_READ|WRITE|EXEC. -/
theorem T_x86_mprotect (mode : Mode) (func len : Nat) (log : List (String × List Val)) (tail : List Val)
    (h : func + len + 4096 < 18446744073709551616) (hl : 1 ≤ len) :
    run (GenX86.make_memory_writable_and_executable_linux mode func len)
        { answers := Val.n 4096 :: Val.n 0 :: tail, log := log } =
      (Res.ok (), { answers := tail, log := log ++
        [("sysconf", [Val.n 30]),
         ("mprotect", [Val.n ((Machine.protectSpan func len).1 : Nat), Val.n ((Machine.protectSpan func len).2 : Nat), Val.n 7])] }) := by
  have hp : castSU 64 (4096 : Int) = 4096 := by decide
  have e1 : usub 64 mode 4096 1 = Res.ok 4095 := usub64_ok _ _ _ (by omega) (by omega)
  have eu : unot 64 4095 = 18446744073709551615 - 4095 := by simp [unot]
  rw [GenX86.make_memory_writable_and_executable_linux]
  rw [run_bind_ok _ _ _ _ _ (run_extI_cons _ _ _ _ _)]
  rw [hp, run_bind_lift_ok _ _ _ _ e1]
  rw [run_bind_lift_ok _ _ _ _ (T_x86_region mode func len h hl)]
  rw [run_bind_ok _ _ _ _ _ (run_extI_cons _ _ _ _ _)]
  simp only [bne_self_eq_false, Bool.false_eq_true, if_false, run_pure, eu, band, and_pagemask func (by omega)]
  simp [Machine.protectSpan, pageStart, pageSize, sbor, castSU, wrapS]

/-- `patch_function(func, patch)` (Linux) as translated performs exactly the OS-visible steps of
    `Machine.patchFunction`: mprotect of `protectSpan func len` with rwx, one raw copy of `patch` to
    `func`, one flush of `[func, func+len)` — after asking `sysconf` for the page size. -/
theorem T_x86_patch_function (mode : Mode) (func : Nat) (patch : List Nat) (log : List (String × List Val)) (tail : List Val)
    (h : func + patch.length + 4096 < 18446744073709551616) (hl : 1 ≤ patch.length) :
    run (GenX86.patch_function mode func patch) { answers := Val.n 4096 :: Val.n 0 :: tail, log := log } =
      (Res.ok (), { answers := tail, log := log ++
        [("sysconf", [Val.n 30]),
         ("mprotect", [Val.n ((Machine.protectSpan func patch.length).1 : Nat), Val.n ((Machine.protectSpan func patch.length).2 : Nat), Val.n 7]),
         ("copy_nonoverlapping", [Val.bs patch, Val.n func, Val.n patch.length]),
         ("__clear_cache", [Val.n func, Val.n ((func + patch.length : Nat) : Int)])] }) := by
  rw [GenX86.patch_function, GenX86.make_memory_writable_and_executable]
  have h1 := T_x86_mprotect mode func patch.length log tail h hl
  have h2 : run (GenX86.make_memory_writable_and_executable_linux mode func patch.length >>= fun _ => (pure () : M Unit))
      { answers := Val.n 4096 :: Val.n 0 :: tail, log := log } = _ := run_bind_ok _ _ _ _ _ h1
  rw [run_pure] at h2
  rw [run_bind_ok _ _ _ _ _ h2]
  rw [run_bind_ok _ _ _ _ _ (T_x86_inject mode patch func _ (by omega)), run_pure]
  simp

end Inj.Tie
#print axioms Inj.Tie.T_x86_mprotect
#print axioms Inj.Tie.T_x86_patch_function
#print axioms Inj.Tie.T_x86_region
#print axioms Inj.Tie.T_x86_boolStub
#print axioms Inj.Tie.T_x86_genBranch
#print axioms Inj.Tie.T_x86_inject
