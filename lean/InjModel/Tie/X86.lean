/-
  Tie/X86.lean — bridge theorems: the functions of `patch_amd64.rs` as translated from the
  source on this run (`Generated/Fns.lean`, namespace GenX86) are equal, for every input, to the
  hand-written model functions the property theorems are stated about.
-/
import InjModel.Generated.Fns
import InjModel.Lemmas.Rt
import InjModel.Lemmas.X86
namespace Inj.Tie
open Inj Inj.Rt

/-- `generate_branch_to_target_function` as translated = `X86.genBranch`, for all 64-bit address
    pairs and both build profiles (including which inputs panic in a debug build). -/
theorem T_x86_genBranch (mode : Mode) (o t : Nat) (ho : o < 18446744073709551616) (ht : t < 18446744073709551616) :
    GenX86.generate_branch_to_target_function mode o t = X86.genBranch mode o t := by
  unfold GenX86.generate_branch_to_target_function
  rw [X86.genBranch_eq_lit]; unfold X86.genBranchLit
  simp only [castUS64 _ ho, castUS64 _ ht, sadd, ssub, chkS64, castSU32_SS32, leBytes4, leBytes8 _ ht]
  obtain ⟨ha1, ha2⟩ := toI64_bounds o ho
  obtain ⟨hb1, hb2⟩ := toI64_bounds t ht
  generalize toI64 o = a at *
  generalize toI64 t = b at *
  by_cases c1 : a + 5 < 9223372036854775808
  · rw [if_pos (by omega), wrapI64_id (a+5) (by omega) c1]
    simp only [Res.bind_ok]
    by_cases c2 : -9223372036854775808 ≤ b - (a + 5) ∧ b - (a + 5) < 9223372036854775808
    · rw [if_pos c2, if_neg (by omega), wrapI64_id _ c2.1 c2.2]
      simp only [Res.bind_ok]
      by_cases c3 : -2147483648 ≤ b - (a + 5) ∧ b - (a + 5) ≤ 2147483647
      · simp [c3]
      · rw [if_neg c3, if_neg]
        · simp
        · simp only [Bool.and_eq_true, decide_eq_true_eq]; omega
    · rw [if_neg c2]
      cases mode
      · simp; omega
      · simp only [reduceCtorEq, if_false, Res.bind_ok, false_and]
        simp only [ge_iff_le, Bool.and_eq_true, decide_eq_true_eq]
        rfl
  · rw [if_neg (by omega)]
    cases mode
    · simp; omega
    · simp only [reduceCtorEq, if_false, Res.bind_ok, false_and]
      by_cases c2 : -9223372036854775808 ≤ b - wrapI64 (a + 5) ∧ b - wrapI64 (a + 5) < 9223372036854775808
      · rw [if_pos c2, wrapI64_id _ c2.1 c2.2]
        simp only [ge_iff_le, Bool.and_eq_true, decide_eq_true_eq, Res.bind_ok]
        rfl
      · rw [if_neg c2]
        simp only [ge_iff_le, Bool.and_eq_true, decide_eq_true_eq, Res.bind_ok]
        rfl

end Inj.Tie
#print axioms Inj.Tie.T_x86_genBranch
