/-
  Tie/A64MEmit.lean — GENERATED from Tie/A64Emit.lean by renaming (translate-time copy kept in git): the same
  bridges for the emitters and the trampoline builder as translated in the macOS configuration (`GenA64M`),
  where `inject_asm_code` toggles the JIT write protection around the copy and (since the fix of finding F9)
  asks for an instruction-cache invalidation of the range.
-/
import InjModel.Generated.Fns
import InjModel.Lemmas.Rt
import InjModel.Model.A64
import InjModel.Tie.A64
open Inj Inj.Rt
namespace Inj.Tie

theorem T_a64m_clear_cache (mode : Mode) (start end_ : Nat) (os : Os) (h : start ≤ end_) (he : end_ < 18446744073709551616) :
    run (GenA64M.clear_cache mode start end_) os =
      (Res.ok (), { os with log := os.log ++ [("sys_icache_invalidate", [Val.n (Int.ofNat start), Val.n (Int.ofNat (end_ - start))]), ("asm", [])] }) := by
  rw [GenA64M.clear_cache]
  rw [run_bind_lift_ok _ _ _ _ (usub64_ok mode end_ start h he)]
  rw [run_bind_ok _ _ _ _ _ (run_extU _ _ _), run_bind_ok _ _ _ _ _ (run_extU _ _ _), run_pure]
  simp

/-- what the macOS `inject_asm_code` asks of the platform around a copy of `bs` to `dest` -/
def macInjectLog (bs : List Nat) (dest : Nat) : List (String × List Val) :=
  [("pthread_jit_write_protect_np", [Val.n 0]),
   ("copy_nonoverlapping", [Val.bs bs, Val.n (Int.ofNat dest), Val.n (Int.ofNat bs.length)]),
   ("pthread_jit_write_protect_np", [Val.n 1]),
   ("sys_icache_invalidate", [Val.n (Int.ofNat dest), Val.n (Int.ofNat bs.length)]), ("asm", [])]

theorem T_a64m_inject (mode : Mode) (bs : List Nat) (dest : Nat) (os : Os) (h : dest + bs.length < 18446744073709551616) :
    run (GenA64M.inject_asm_code mode bs dest) os = (Res.ok (), { os with log := os.log ++ macInjectLog bs dest }) := by
  rw [GenA64M.inject_asm_code]
  rw [run_bind_ok _ _ _ _ _ (run_extU _ _ _), run_bind_ok _ _ _ _ _ (run_extU _ _ _), run_bind_ok _ _ _ _ _ (run_extU _ _ _)]
  rw [run_bind_lift_ok _ _ _ _ (uadd64_ok mode dest bs.length h)]
  rw [run_bind_ok _ _ _ _ _ (T_a64m_clear_cache mode dest (dest + bs.length) _ (by omega) h), run_pure]
  have : dest + bs.length - dest = bs.length := by omega
  simp [macInjectLog, this]


theorem m_forM_app {α σ : Type} (xs ys : List α) (s : σ) (f : α → σ → Res σ) :
    forM' (xs ++ ys) s f = (forM' xs s f >>= fun s' => forM' ys s' f) := by
  induction xs generalizing s with
  | nil => simp [forM']
  | cons x xs ih =>
    simp only [List.cons_append, forM']
    cases h : f x s with
    | ok v => simp [ih]
    | panic w => simp

/-- bit `i` of `n` as the translated loops compute it: `((n >> i) & 1) != 0` -/
def m_bitAt (n i : Nat) : Bool := (n / 2 ^ i) % 2 == 1

def m_bitsOf (n k : Nat) : List Bool := (List.range k).map (m_bitAt n)

theorem m_bitsOf_length (n k : Nat) : (m_bitsOf n k).length = k := by simp [m_bitsOf]

theorem m_bitsOf_succ (n k : Nat) : m_bitsOf n (k + 1) = m_bitsOf n k ++ [m_bitAt n k] := by
  simp [m_bitsOf, List.range_succ]

/-- body of `for (i, bit) in bits.iter_mut().enumerate() { *bit = ((n >> i) & 1) != 0 }` as translated -/
def m_bitStep (w : Nat) (mode : Mode) (n : Nat) : Nat → List Bool → Res (List Bool) := fun i st => do
  let t ← ushr w mode n i
  setIdx st i ((band t (1 : Nat)) != (0 : Nat))

theorem m_bitStep_ok (w : Nat) (mode : Mode) (n i : Nat) (st : List Bool) (hi : i < w) (hl : i < st.length) :
    m_bitStep w mode n i st = Res.ok (st.set i (m_bitAt n i)) := by
  unfold m_bitStep ushr
  rw [if_pos hi, Res.bind_ok]
  unfold setIdx
  rw [if_pos hl]
  congr 2
  unfold band m_bitAt
  rw [Nat.and_one_is_mod]
  cases h : n / 2 ^ i % 2 with
  | zero => rfl
  | succ m =>
    have : m = 0 := by omega
    subst this; rfl

theorem m_bits_loop (w : Nat) (mode : Mode) (n : Nat) (bits : List Bool) :
    ∀ k, k ≤ w → k ≤ bits.length →
      forM' (List.range k) bits (m_bitStep w mode n) = Res.ok (m_bitsOf n k ++ bits.drop k) := by
  intro k
  induction k with
  | zero => intro _ _; simp [forM', m_bitsOf]
  | succ k ih =>
    intro hw hl
    rw [List.range_succ, m_forM_app, ih (by omega) (by omega), Res.bind_ok]
    simp only [forM']
    rw [m_bitStep_ok w mode n k _ (by omega) (by simp [m_bitsOf_length]; omega), Res.bind_ok]
    rw [m_bitsOf_succ]
    congr 1
    -- (A ++ D).set |A| x = A ++ [x] ++ D.tail  with D = drop k bits
    have hlen := m_bitsOf_length n k
    generalize m_bitsOf n k = A at hlen ⊢
    subst hlen
    have hd : List.drop A.length bits = (bits[A.length]'(by omega)) :: List.drop (A.length + 1) bits := by
      rw [List.drop_eq_getElem_cons]
    have e : ∀ (D : List Bool) (x y : Bool) (T : List Bool), D = y :: T → D.set 0 x = x :: T := by
      intro D x y T h; subst h; rfl
    simp only [List.set_append_right _ _ (Nat.le_refl _), Nat.sub_self, List.append_assoc, List.cons_append, List.nil_append]
    exact congrArg _ (e _ _ _ _ hd)

theorem m_bitAt_succ (n i : Nat) : m_bitAt n (i + 1) = m_bitAt (n / 2) i := by
  unfold m_bitAt
  rw [Nat.pow_succ, Nat.mul_comm, Nat.div_div_eq_div_mul]

theorem m_bitAt_add (n s i : Nat) : m_bitAt n (s + i) = m_bitAt (n / 2 ^ s) i := by
  unfold m_bitAt
  rw [Nat.pow_add, Nat.div_div_eq_div_mul]

theorem m_natToBits_eq (k : Nat) : ∀ n, A64.natToBits n k = m_bitsOf n k := by
  induction k with
  | zero => intro n; rfl
  | succ k ih =>
    intro n
    rw [A64.natToBits, ih]
    unfold m_bitsOf
    rw [List.range_succ_eq_map, List.map_cons, List.map_map]
    congr 1
    · unfold m_bitAt; simp
    · apply List.map_congr_left
      intro i _
      simp [m_bitAt_succ]

theorem T_a64m_u64_to_bits (mode : Mode) (n : Nat) : GenA64M.u64_to_bits mode n = Res.ok (m_bitsOf n 64) := by
  have h : GenA64M.u64_to_bits mode n =
      (forM' (List.range 64) (List.replicate 64 false) (m_bitStep 64 mode n) >>= fun b => pure b) := rfl
  rw [h, m_bits_loop 64 mode n _ 64 (by omega) (by simp), Res.bind_ok]
  simp

theorem T_a64m_u8_to_bits_5 (mode : Mode) (n : Nat) : GenA64M.u8_to_bits_5 mode n = Res.ok (m_bitsOf n 5) := by
  have h : GenA64M.u8_to_bits_5 mode n =
      (forM' (List.range 5) (List.replicate 5 false) (m_bitStep 8 mode n) >>= fun b => pure b) := rfl
  rw [h, m_bits_loop 8 mode n _ 5 (by omega) (by simp), Res.bind_ok]
  simp

theorem T_a64m_u8_to_bits_2 (mode : Mode) (n : Nat) : GenA64M.u8_to_bits_2 mode n = Res.ok (m_bitsOf n 2) := by
  have h : GenA64M.u8_to_bits_2 mode n =
      (forM' (List.range 2) (List.replicate 2 false) (m_bitStep 8 mode n) >>= fun b => pure b) := rfl
  rw [h, m_bits_loop 8 mode n _ 2 (by omega) (by simp), Res.bind_ok]
  simp

theorem m_slice_bits (n start : Nat) (h : start + 16 ≤ 64) :
    slice (m_bitsOf n 64) start (16 + start) = Res.ok (m_bitsOf (n / 2 ^ start) 16) := by
  unfold slice
  rw [if_pos (by simp [m_bitsOf_length]; omega)]
  congr 1
  unfold m_bitsOf
  rw [← List.map_drop, ← List.map_take]
  have : (List.drop start (List.range 64)).take (16 + start - start) = (List.range 16).map (start + ·) := by
    have e : 16 + start - start = 16 := by omega
    rw [e]
    apply List.ext_getElem
    · simp; omega
    · intro i h1 h2
      simp
  rw [this, List.map_map]
  apply List.map_congr_left
  intro i _
  simp [m_bitAt_add]


theorem m_set_take_drop (bits : List Bool) (cur : Nat) (x : Bool) (h : cur < bits.length) :
    bits.set cur x = bits.take cur ++ x :: bits.drop (cur + 1) := by
  induction bits generalizing cur with
  | nil => simp at h
  | cons b bs ih =>
    cases cur with
    | zero => simp
    | succ c =>
      simp only [List.set_cons_succ, List.take_succ_cons, List.drop_succ_cons, List.cons_append, List.length_cons] at h ⊢
      rw [ih c (by omega)]

/-- body of the copy loop `for &bit in xs.iter() { code_bits[cur] = bit; cur += 1; }` as translated -/
def m_copyStep (mode : Mode) : Bool → List Bool × Nat → Res (List Bool × Nat) := fun x st => do
  let (code_bits, cur) := st
  let upd ← setIdx code_bits cur x
  let code_bits := upd
  let t ← uadd 64 mode cur (1 : Nat)
  let cur := t
  pure (code_bits, cur)

theorem m_copyStep_ok (mode : Mode) (x : Bool) (bits : List Bool) (cur : Nat) (hc : cur < bits.length)
    (hb : bits.length < 18446744073709551616) :
    m_copyStep mode x (bits, cur) = Res.ok (bits.set cur x, cur + 1) := by
  have hs : setIdx bits cur x = Res.ok (bits.set cur x) := by unfold setIdx; rw [if_pos hc]
  have hu : uadd 64 mode cur 1 = Res.ok (cur + 1) := uadd64_ok _ _ _ (by omega)
  show (setIdx bits cur x >>= fun upd => uadd 64 mode cur 1 >>= fun t => pure (upd, t)) = _
  rw [hs, Res.bind_ok, hu, Res.bind_ok]
  rfl

theorem m_forM_append (mode : Mode) (xs : List Bool) :
    ∀ (bits : List Bool) (cur : Nat), cur + xs.length ≤ bits.length → bits.length < 18446744073709551616 →
    forM' xs (bits, cur) (m_copyStep mode) =
    Res.ok (bits.take cur ++ xs ++ bits.drop (cur + xs.length), cur + xs.length) := by
  induction xs with
  | nil => intro bits cur _ _; simp [forM']
  | cons x xs ih =>
    intro bits cur h hb
    simp only [List.length_cons] at h
    have hc : cur < bits.length := by omega
    rw [forM', m_copyStep_ok mode x bits cur hc hb, Res.bind_ok]
    rw [ih (bits.set cur x) (cur + 1) (by simp; omega) (by simp; omega)]
    rw [m_set_take_drop bits cur x hc]
    simp only [List.length_cons, Res.ok.injEq, Prod.mk.injEq]
    refine ⟨?_, by omega⟩
    have ht : (bits.take cur).length = cur := by simp; omega
    have hd : List.drop (cur + (xs.length + 1)) bits = List.drop xs.length (List.drop (cur + 1) bits) := by
      rw [List.drop_drop]; congr 1; omega
    rw [hd]
    generalize List.drop (cur + 1) bits = D
    generalize List.take cur bits = A at ht ⊢
    subst ht
    have h1 : List.take (A.length + 1) (A ++ x :: D) = A ++ [x] := by
      rw [List.take_append]; simp [List.take_of_length_le]
    have h2 : List.drop (A.length + 1 + xs.length) (A ++ x :: D) = List.drop xs.length D := by
      rw [Nat.add_assoc, List.drop_append]; simp [Nat.add_comm 1]
    rw [h1, h2]; simp

theorem m_forM_fill (mode : Mode) (pre xs : List Bool) (k : Nat) (h : xs.length ≤ k)
    (hb : pre.length + k < 18446744073709551616) :
    forM' xs (pre ++ List.replicate k false, pre.length) (m_copyStep mode) =
      Res.ok ((pre ++ xs) ++ List.replicate (k - xs.length) false, (pre ++ xs).length) := by
  rw [m_forM_append mode xs _ _ (by simp; omega) (by simp; omega)]
  simp only [Res.ok.injEq, Prod.mk.injEq, List.length_append, and_true]
  have h1 : List.take pre.length (pre ++ List.replicate k false) = pre := by
    rw [List.take_append]; simp
  have h2 : List.drop (pre.length + xs.length) (pre ++ List.replicate k false) = List.replicate (k - xs.length) false := by
    rw [List.drop_append]; simp
  rw [h1, h2]

theorem m_emit_movz_unfold (mode : Mode) (v : List Bool) (sf : Bool) (hw r : List Bool) :
    GenA64M.emit_movz mode v sf hw r = (do
      let code_bits := (List.replicate 32 false)
      let cur := (0 : Nat)
      let (code_bits, cur) ← forM' r (code_bits, cur) (m_copyStep mode)
      let (code_bits, cur) ← forM' v (code_bits, cur) (m_copyStep mode)
      let (code_bits, cur) ← forM' hw (code_bits, cur) (m_copyStep mode)
      let (code_bits, cur) ← forM' [true, false, true, false, false, true] (code_bits, cur) (m_copyStep mode)
      let (code_bits, cur) ← forM' [false, true] (code_bits, cur) (m_copyStep mode)
      let upd ← setIdx code_bits cur sf
      let code_bits := upd
      pure code_bits) := rfl

/-- `emit_movz` as translated lays the fields out LSB first: Rd, imm16, hw, then the fixed opcode bits
    and `sf` — for every 16-bit immediate, 2-bit hw and 5-bit register. -/
theorem T_a64m_emit_movz (mode : Mode) (v : List Bool) (sf : Bool) (hw r : List Bool)
    (hv : v.length = 16) (hh : hw.length = 2) (hr : r.length = 5) :
    GenA64M.emit_movz mode v sf hw r =
      Res.ok (r ++ v ++ hw ++ [true, false, true, false, false, true] ++ [false, true] ++ [sf]) := by
  rw [m_emit_movz_unfold]
  dsimp only
  have s0 : (List.replicate 32 false, (0 : Nat)) = (([] : List Bool) ++ List.replicate 32 false, ([] : List Bool).length) := rfl
  rw [s0, m_forM_fill mode [] r 32 (by omega) (by simp), Res.bind_ok]
  dsimp only
  rw [m_forM_fill mode _ v _ (by simp [hr, hv]) (by simp [hr]), Res.bind_ok]
  dsimp only
  rw [m_forM_fill mode _ hw _ (by simp [hr, hv, hh]) (by simp [hr, hv]), Res.bind_ok]
  dsimp only
  rw [m_forM_fill mode _ _ _ (by simp [hr, hv, hh]) (by simp [hr, hv, hh]), Res.bind_ok]
  dsimp only
  rw [m_forM_fill mode _ _ _ (by simp [hr, hv, hh]) (by simp [hr, hv, hh]), Res.bind_ok]
  dsimp only
  have hk : 32 - r.length - v.length - hw.length - [true, false, true, false, false, true].length - [false, true].length = 1 := by
    simp [hr, hv, hh]
  rw [hk]
  have hset : ∀ (pre : List Bool) (x : Bool), setIdx (pre ++ List.replicate 1 false) pre.length x = Res.ok (pre ++ [x]) := by
    intro pre x
    unfold setIdx
    rw [if_pos (by simp)]
    simp
  rw [hset, Res.bind_ok]
  simp

theorem m_emit_movk_unfold (mode : Mode) (v : List Bool) (sf : Bool) (hw r : List Bool) :
    GenA64M.emit_movk mode v sf hw r = (do
      let code_bits := (List.replicate 32 false)
      let cur := (0 : Nat)
      let (code_bits, cur) ← forM' r (code_bits, cur) (m_copyStep mode)
      let (code_bits, cur) ← forM' v (code_bits, cur) (m_copyStep mode)
      let (code_bits, cur) ← forM' hw (code_bits, cur) (m_copyStep mode)
      let (code_bits, cur) ← forM' [true, false, true, false, false, true] (code_bits, cur) (m_copyStep mode)
      let (code_bits, cur) ← forM' [true, true] (code_bits, cur) (m_copyStep mode)
      let upd ← setIdx code_bits cur sf
      let code_bits := upd
      pure code_bits) := rfl

/-- `emit_movk` as translated lays the fields out LSB first: Rd, imm16, hw, then the fixed opcode bits
    and `sf` — for every 16-bit immediate, 2-bit hw and 5-bit register. -/
theorem T_a64m_emit_movk (mode : Mode) (v : List Bool) (sf : Bool) (hw r : List Bool)
    (hv : v.length = 16) (hh : hw.length = 2) (hr : r.length = 5) :
    GenA64M.emit_movk mode v sf hw r =
      Res.ok (r ++ v ++ hw ++ [true, false, true, false, false, true] ++ [true, true] ++ [sf]) := by
  rw [m_emit_movk_unfold]
  dsimp only
  have s0 : (List.replicate 32 false, (0 : Nat)) = (([] : List Bool) ++ List.replicate 32 false, ([] : List Bool).length) := rfl
  rw [s0, m_forM_fill mode [] r 32 (by omega) (by simp), Res.bind_ok]
  dsimp only
  rw [m_forM_fill mode _ v _ (by simp [hr, hv]) (by simp [hr]), Res.bind_ok]
  dsimp only
  rw [m_forM_fill mode _ hw _ (by simp [hr, hv, hh]) (by simp [hr, hv]), Res.bind_ok]
  dsimp only
  rw [m_forM_fill mode _ _ _ (by simp [hr, hv, hh]) (by simp [hr, hv, hh]), Res.bind_ok]
  dsimp only
  rw [m_forM_fill mode _ _ _ (by simp [hr, hv, hh]) (by simp [hr, hv, hh]), Res.bind_ok]
  dsimp only
  have hk : 32 - r.length - v.length - hw.length - [true, false, true, false, false, true].length - [true, true].length = 1 := by
    simp [hr, hv, hh]
  rw [hk]
  have hset : ∀ (pre : List Bool) (x : Bool), setIdx (pre ++ List.replicate 1 false) pre.length x = Res.ok (pre ++ [x]) := by
    intro pre x
    unfold setIdx
    rw [if_pos (by simp)]
    simp
  rw [hset, Res.bind_ok]
  simp

theorem m_copy16 (t : List Bool) (h : t.length = 16) :
    copyInto (List.replicate 16 false) 0 (List.replicate 16 false).length t = Res.ok t := by
  unfold copyInto
  rw [if_pos (by simp [h])]
  simp

theorem T_a64m_emit_movz_from_address (mode : Mode) (address start : Nat) (sf : Bool) (hw r : List Bool)
    (hs : start + 16 ≤ 64) (hh : hw.length = 2) (hr : r.length = 5) :
    GenA64M.emit_movz_from_address mode address start sf hw r =
      Res.ok (r ++ m_bitsOf (address / 2 ^ start) 16 ++ hw ++ [true, false, true, false, false, true] ++ [false, true] ++ [sf]) := by
  rw [GenA64M.emit_movz_from_address, T_a64m_u64_to_bits, Res.bind_ok]
  rw [uadd64_ok mode 16 start (by omega), Res.bind_ok, m_slice_bits address start hs, Res.bind_ok]
  rw [m_copy16 _ (m_bitsOf_length _ _), Res.bind_ok]
  rw [T_a64m_emit_movz mode _ sf hw r (m_bitsOf_length _ _) hh hr]

theorem T_a64m_emit_movk_from_address (mode : Mode) (address start : Nat) (sf : Bool) (hw r : List Bool)
    (hs : start + 16 ≤ 64) (hh : hw.length = 2) (hr : r.length = 5) :
    GenA64M.emit_movk_from_address mode address start sf hw r =
      Res.ok (r ++ m_bitsOf (address / 2 ^ start) 16 ++ hw ++ [true, false, true, false, false, true] ++ [true, true] ++ [sf]) := by
  rw [GenA64M.emit_movk_from_address, T_a64m_u64_to_bits, Res.bind_ok]
  rw [uadd64_ok mode 16 start (by omega), Res.bind_ok, m_slice_bits address start hs, Res.bind_ok]
  rw [m_copy16 _ (m_bitsOf_length _ _), Res.bind_ok]
  rw [T_a64m_emit_movk mode _ sf hw r (m_bitsOf_length _ _) hh hr]


/-- body of `for _ in 0..n { code_bits[cur] = b; cur += 1; }` as translated -/
def m_constStep (mode : Mode) (b : Bool) : Nat → List Bool × Nat → Res (List Bool × Nat) := fun _ st => do
  let (code_bits, cur) := st
  let upd ← setIdx code_bits cur b
  let code_bits := upd
  let t ← uadd 64 mode cur (1 : Nat)
  let cur := t
  pure (code_bits, cur)

theorem m_constStep_eq (mode : Mode) (b : Bool) (i : Nat) (st : List Bool × Nat) : m_constStep mode b i st = m_copyStep mode b st := rfl

theorem m_forM_const (mode : Mode) (b : Bool) (n : Nat) :
    ∀ (s : Nat) (pre : List Bool) (k : Nat), n ≤ k → pre.length + k < 18446744073709551616 →
    forM' (List.range' s n) (pre ++ List.replicate k false, pre.length) (m_constStep mode b) =
      Res.ok ((pre ++ List.replicate n b) ++ List.replicate (k - n) false, (pre ++ List.replicate n b).length) := by
  induction n with
  | zero => intro s pre k _ _; simp [forM']
  | succ n ih =>
    intro s pre k hk hb
    rw [List.range'_succ, forM', m_constStep_eq]
    have h1 := m_forM_fill mode pre [b] k (by simp; omega) hb
    simp only [forM', Res.bind_ok] at h1
    have h1' : m_copyStep mode b (pre ++ List.replicate k false, pre.length) =
        Res.ok ((pre ++ [b]) ++ List.replicate (k - 1) false, (pre ++ [b]).length) := by
      cases hc : m_copyStep mode b (pre ++ List.replicate k false, pre.length) with
      | ok v => rw [hc] at h1; simpa using h1
      | panic w => rw [hc] at h1; simp at h1
    rw [h1', Res.bind_ok, ih (s + 1) (pre ++ [b]) (k - 1) (by omega) (by simp; omega)]
    congr 1
    simp [List.replicate_succ]
    omega

theorem m_emit_br_unfold (mode : Mode) (r : List Bool) :
    GenA64M.emit_br mode r = (do
      let code_bits := (List.replicate 32 false)
      let cur := (0 : Nat)
      let (code_bits, cur) ← forM' (List.range' (0 : Nat) ((5 : Nat) - (0 : Nat))) (code_bits, cur) (m_constStep mode false)
      let (code_bits, cur) ← forM' r (code_bits, cur) (m_copyStep mode)
      let upd ← setIdx code_bits cur false
      let code_bits := upd
      let t ← uadd 64 mode cur (1 : Nat)
      let cur := t
      let upd ← setIdx code_bits cur false
      let code_bits := upd
      let t ← uadd 64 mode cur (1 : Nat)
      let cur := t
      let (code_bits, cur) ← forM' (List.range' (0 : Nat) ((4 : Nat) - (0 : Nat))) (code_bits, cur) (m_constStep mode false)
      let (code_bits, cur) ← forM' (List.range' (0 : Nat) ((5 : Nat) - (0 : Nat))) (code_bits, cur) (m_constStep mode true)
      let (code_bits, cur) ← forM' (List.range' (0 : Nat) ((2 : Nat) - (0 : Nat))) (code_bits, cur) (m_constStep mode false)
      let upd ← setIdx code_bits cur false
      let code_bits := upd
      let t ← uadd 64 mode cur (1 : Nat)
      let cur := t
      let upd ← setIdx code_bits cur false
      let code_bits := upd
      let t ← uadd 64 mode cur (1 : Nat)
      let cur := t
      let (code_bits, cur) ← forM' [true, true, false, true, false, true, true] (code_bits, cur) (m_copyStep mode)
      pure code_bits) := rfl

theorem m_set_fill (pre : List Bool) (k : Nat) (x : Bool) (hk : 1 ≤ k) :
    setIdx (pre ++ List.replicate k false) pre.length x = Res.ok ((pre ++ [x]) ++ List.replicate (k - 1) false) := by
  unfold setIdx
  rw [if_pos (by simp; omega)]
  congr 1
  cases k with
  | zero => omega
  | succ k => simp [List.replicate_succ]

theorem m_uadd_len (mode : Mode) (pre : List Bool) (x : Bool) (h : pre.length < 1000) :
    uadd 64 mode pre.length 1 = Res.ok (pre ++ [x]).length := by
  rw [uadd64_ok _ _ _ (by omega)]; simp

/-- `emit_br` as translated: 00000 Rn 00 0000 11111 00 0 0 1101011 (LSB first) for every 5-bit register -/
theorem T_a64m_emit_br (mode : Mode) (r : List Bool) (hr : r.length = 5) :
    GenA64M.emit_br mode r = Res.ok ([false, false, false, false, false] ++ r ++ [false, false] ++ [false, false, false, false] ++
      [true, true, true, true, true] ++ [false, false] ++ [false] ++ [false] ++ [true, true, false, true, false, true, true]) := by
  rw [m_emit_br_unfold]
  dsimp only
  have s0 : (List.replicate 32 false, (0 : Nat)) = (([] : List Bool) ++ List.replicate 32 false, ([] : List Bool).length) := rfl
  rw [s0, m_forM_const mode false 5 0 [] 32 (by omega) (by simp), Res.bind_ok]
  dsimp only
  rw [m_forM_fill mode _ r _ (by simp [hr]) (by simp), Res.bind_ok]
  dsimp only
  rw [m_set_fill _ _ false (by simp [hr]), Res.bind_ok, m_uadd_len mode _ false (by simp [hr]), Res.bind_ok]
  rw [m_set_fill _ _ false (by simp [hr]), Res.bind_ok, m_uadd_len mode _ false (by simp [hr]), Res.bind_ok]
  rw [m_forM_const mode false 4 0 _ _ (by simp [hr]) (by simp [hr]), Res.bind_ok]
  dsimp only
  rw [m_forM_const mode true 5 0 _ _ (by simp [hr]) (by simp [hr]), Res.bind_ok]
  dsimp only
  rw [m_forM_const mode false 2 0 _ _ (by simp [hr]) (by simp [hr]), Res.bind_ok]
  dsimp only
  rw [m_set_fill _ _ false (by simp [hr]), Res.bind_ok, m_uadd_len mode _ false (by simp [hr]), Res.bind_ok]
  rw [m_set_fill _ _ false (by simp [hr]), Res.bind_ok, m_uadd_len mode _ false (by simp [hr]), Res.bind_ok]
  rw [m_forM_fill mode _ _ _ (by simp [hr]) (by simp [hr]), Res.bind_ok]
  simp [hr, List.replicate]
/-- body of `bits.iter().enumerate().fold(0, |acc, (i, &bit)| if bit { acc | (1 << i) } else { acc })` -/
def m_foldStep (mode : Mode) : Nat × Bool → Nat → Res Nat := fun it st => do
  let t ← (if it.2 then (do
      let t3 ← ushl 32 mode (1 : Nat) it.1
      pure (bor st t3)) else (do
      pure st))
  pure t

theorem m_foldStep_ok (mode : Mode) (k : Nat) (b : Bool) (acc : Nat) (hk : k < 32) (ha : acc < 2 ^ k) :
    m_foldStep mode (k, b) acc = Res.ok (acc + (if b then 2 ^ k else 0)) := by
  unfold m_foldStep
  cases b
  · simp
  · simp only [if_true]
    unfold ushl
    rw [if_pos hk]
    have h1 : 1 * 2 ^ k % 2 ^ 32 = 2 ^ k := by
      rw [Nat.one_mul]
      exact Nat.mod_eq_of_lt (Nat.pow_lt_pow_right (by decide) hk)
    simp only [Res.bind_ok, Res.pure_eq, h1]
    unfold bor
    have := Nat.two_pow_add_eq_or_of_lt ha 1
    rw [Nat.mul_one] at this
    rw [Nat.or_comm, ← this, Nat.add_comm]

theorem m_fold_loop (mode : Mode) (bits : List Bool) :
    ∀ (k acc : Nat), acc < 2 ^ k → k + bits.length ≤ 32 →
      forM' ((List.zipIdx bits k).map (fun p => (p.2, p.1))) acc (m_foldStep mode) =
        Res.ok (acc + 2 ^ k * A64.bitsToNat bits) := by
  induction bits with
  | nil => intro k acc _ _; simp [forM', A64.bitsToNat]
  | cons b bs ih =>
    intro k acc ha hl
    simp only [List.length_cons] at hl
    simp only [List.zipIdx_cons, List.map_cons, forM']
    rw [m_foldStep_ok mode k b acc (by omega) ha, Res.bind_ok]
    have ha' : acc + (if b then 2 ^ k else 0) < 2 ^ (k + 1) := by
      rw [Nat.pow_succ]; split <;> omega
    rw [ih (k + 1) _ ha' (by omega)]
    congr 1
    rw [A64.bitsToNat, Nat.pow_succ]
    cases b <;> simp [Nat.mul_add, Nat.mul_assoc, Nat.add_assoc, Nat.mul_comm, Nat.mul_left_comm]

theorem T_a64m_bool_array_to_u32 (mode : Mode) (bits : List Bool) (h : bits.length ≤ 32) :
    GenA64M.bool_array_to_u32 mode bits = Res.ok (A64.bitsToNat bits) := by
  have e : GenA64M.bool_array_to_u32 mode bits =
      (forM' ((List.zipIdx bits).map (fun p => (p.2, p.1))) 0 (m_foldStep mode)) := rfl
  rw [e, m_fold_loop mode bits 0 0 (by simp) (by omega)]
  simp

theorem m_and255 (x : Nat) : castUU 8 (band x 255) = x % 256 := by
  unfold castUU band
  have := Nat.and_two_pow_sub_one_eq_mod x 8
  simp only [Nat.reducePow, Nat.add_one_sub_one] at this
  rw [show (255 : Nat) = 256 - 1 from rfl, this]
  omega

theorem T_a64m_append_instruction (mode : Mode) (code : List Nat) (w : Nat) :
    GenA64M.append_instruction mode code w = Res.ok (code ++ le32 w) := by
  have h8 : ushr 32 mode w 8 = Res.ok (w / 256) := by unfold ushr; rw [if_pos (by omega)]
  have h16 : ushr 32 mode w 16 = Res.ok (w / 65536) := by unfold ushr; rw [if_pos (by omega)]
  have h24 : ushr 32 mode w 24 = Res.ok (w / 16777216) := by unfold ushr; rw [if_pos (by omega)]
  rw [GenA64M.append_instruction, h8, Res.bind_ok, h16, Res.bind_ok, h24, Res.bind_ok]
  simp [m_and255, le32]

theorem m_bitsOf_mod (x : Nat) : m_bitsOf (x % 65536) 16 = m_bitsOf x 16 := by
  unfold m_bitsOf
  apply List.map_congr_left
  intro i hi
  have hi' : i < 16 := by simpa using hi
  unfold m_bitAt
  have : (x % 65536) / 2 ^ i % 2 = x / 2 ^ i % 2 := by
    have hp : (65536 : Nat) = 2 ^ i * 2 ^ (16 - i) := by
      rw [← Nat.pow_add, show i + (16 - i) = 16 from by omega]
    rw [hp, Nat.mod_mul_right_div_self]
    have h2 : 2 ^ (16 - i) = 2 * 2 ^ (15 - i) := by
      rw [← Nat.pow_succ']; congr 1; omega
    rw [h2, Nat.mod_mul_right_mod]
  rw [this]

open Inj.Generated.Consts in
theorem m_movz_word (x st hw : Nat) :
    A64.movz (A64.chunk x st) true hw 9 =
      A64.bitsToNat (m_bitsOf 9 5 ++ m_bitsOf (x / 2 ^ st) 16 ++ m_bitsOf hw 2 ++ [true, false, true, false, false, true] ++ [false, true] ++ [true]) := by
  unfold A64.movz A64.emitWord A64.chunk
  simp only [emitMovz, A64.emitBits, A64.srcBits, m_natToBits_eq, m_bitsOf_mod, List.append_nil, List.append_assoc, List.cons_append, List.nil_append]

open Inj.Generated.Consts in
theorem m_movk_word (x st hw : Nat) :
    A64.movk (A64.chunk x st) true hw 9 =
      A64.bitsToNat (m_bitsOf 9 5 ++ m_bitsOf (x / 2 ^ st) 16 ++ m_bitsOf hw 2 ++ [true, false, true, false, false, true] ++ [true, true] ++ [true]) := by
  unfold A64.movk A64.emitWord A64.chunk
  simp only [emitMovk, A64.emitBits, A64.srcBits, m_natToBits_eq, m_bitsOf_mod, List.append_nil, List.append_assoc, List.cons_append, List.nil_append]

open Inj.Generated.Consts in
theorem m_br_word :
    A64.br 9 = A64.bitsToNat ([false, false, false, false, false] ++ m_bitsOf 9 5 ++ [false, false] ++ [false, false, false, false] ++
      [true, true, true, true, true] ++ [false, false] ++ [false] ++ [false] ++ [true, true, false, true, false, true, true]) := by
  unfold A64.br A64.emitWord
  simp only [emitBr, A64.emitBits, A64.srcBits, m_natToBits_eq, List.append_nil, List.append_assoc, List.cons_append, List.nil_append]
open Inj.Generated.Consts in
/-- `generate_will_execute_jit_code_abs(jit, fake)` as translated: the 20 bytes copied to the trampoline
    (and flushed, with the barrier) are exactly the words of `A64.tramp fake` — movz/movk x3 building
    the 64-bit address of the fake in x9 and `br x9` — for every 64-bit fake address. -/
theorem T_a64m_tramp (mode : Mode) (jit fake : Nat) (os : Os) (hj : jit + 20 < 18446744073709551616) :
    run (GenA64M.generate_will_execute_jit_code_abs mode jit fake) os =
      (Res.ok (), { os with log := os.log ++ macInjectLog (A64.wordsToBytes (A64.tramp fake)) jit }) := by
  have l5 := m_bitsOf_length 9 5
  have hz := T_a64m_emit_movz_from_address mode fake 0 true (m_bitsOf 0 2) (m_bitsOf 9 5) (by omega) (m_bitsOf_length _ _) l5
  have hk1 := T_a64m_emit_movk_from_address mode fake 16 true (m_bitsOf 1 2) (m_bitsOf 9 5) (by omega) (m_bitsOf_length _ _) l5
  have hk2 := T_a64m_emit_movk_from_address mode fake 32 true (m_bitsOf 2 2) (m_bitsOf 9 5) (by omega) (m_bitsOf_length _ _) l5
  have hk3 := T_a64m_emit_movk_from_address mode fake 48 true (m_bitsOf 3 2) (m_bitsOf 9 5) (by omega) (m_bitsOf_length _ _) l5
  have hbr := T_a64m_emit_br mode (m_bitsOf 9 5) l5
  rw [GenA64M.generate_will_execute_jit_code_abs]
  rw [run_bind_lift_ok _ _ _ _ (T_a64m_u8_to_bits_5 mode 9)]
  rw [run_bind_lift_ok _ _ _ _ (T_a64m_u8_to_bits_2 mode 0), run_bind_lift_ok _ _ _ _ hz]
  rw [run_bind_lift_ok _ _ _ _ (T_a64m_u8_to_bits_2 mode 1), run_bind_lift_ok _ _ _ _ hk1]
  rw [run_bind_lift_ok _ _ _ _ (T_a64m_u8_to_bits_2 mode 2), run_bind_lift_ok _ _ _ _ hk2]
  rw [run_bind_lift_ok _ _ _ _ (T_a64m_u8_to_bits_2 mode 3), run_bind_lift_ok _ _ _ _ hk3]
  rw [run_bind_lift_ok _ _ _ _ hbr]
  rw [run_bind_lift_ok _ _ _ _ (T_a64m_bool_array_to_u32 mode _ (by simp [m_bitsOf_length])),
      run_bind_lift_ok _ _ _ _ (T_a64m_append_instruction mode _ _)]
  rw [run_bind_lift_ok _ _ _ _ (T_a64m_bool_array_to_u32 mode _ (by simp [m_bitsOf_length])),
      run_bind_lift_ok _ _ _ _ (T_a64m_append_instruction mode _ _)]
  rw [run_bind_lift_ok _ _ _ _ (T_a64m_bool_array_to_u32 mode _ (by simp [m_bitsOf_length])),
      run_bind_lift_ok _ _ _ _ (T_a64m_append_instruction mode _ _)]
  rw [run_bind_lift_ok _ _ _ _ (T_a64m_bool_array_to_u32 mode _ (by simp [m_bitsOf_length])),
      run_bind_lift_ok _ _ _ _ (T_a64m_append_instruction mode _ _)]
  rw [run_bind_lift_ok _ _ _ _ (T_a64m_bool_array_to_u32 mode _ (by simp [m_bitsOf_length])),
      run_bind_lift_ok _ _ _ _ (T_a64m_append_instruction mode _ _)]
  rw [← m_movz_word fake 0 0, ← m_movk_word fake 16 1, ← m_movk_word fake 32 2, ← m_movk_word fake 48 3, ← m_br_word]
  have hlen : ([] ++ le32 (A64.movz (A64.chunk fake 0) true 0 9) ++ le32 (A64.movk (A64.chunk fake 16) true 1 9) ++
      le32 (A64.movk (A64.chunk fake 32) true 2 9) ++ le32 (A64.movk (A64.chunk fake 48) true 3 9) ++ le32 (A64.br 9)).length = 20 := by
    simp [le32]
  rw [run_bind_ok _ _ _ _ _ (T_a64m_inject mode _ jit os (by rw [hlen]; exact hj)), run_pure]
  have hm : A64.wordsToBytes (A64.tramp fake) = [] ++ le32 (A64.movz (A64.chunk fake 0) true 0 9) ++ le32 (A64.movk (A64.chunk fake 16) true 1 9) ++
      le32 (A64.movk (A64.chunk fake 32) true 2 9) ++ le32 (A64.movk (A64.chunk fake 48) true 3 9) ++ le32 (A64.br 9) := by
    simp [A64.wordsToBytes, A64.tramp, a64TrampSeq, A64.trampWord, a64ScratchReg]
  rw [hm]

theorem m_emit_ret_unfold (mode : Mode) (r : List Bool) :
    GenA64M.emit_ret mode r = (do
      let code_bits := (List.replicate 32 false)
      let cur := (0 : Nat)
      let upd ← setIdx code_bits cur false
      let code_bits := upd
      let t ← uadd 64 mode cur (1 : Nat)
      let cur := t
      let upd ← setIdx code_bits cur false
      let code_bits := upd
      let t ← uadd 64 mode cur (1 : Nat)
      let cur := t
      let upd ← setIdx code_bits cur false
      let code_bits := upd
      let t ← uadd 64 mode cur (1 : Nat)
      let cur := t
      let upd ← setIdx code_bits cur false
      let code_bits := upd
      let t ← uadd 64 mode cur (1 : Nat)
      let cur := t
      let upd ← setIdx code_bits cur false
      let code_bits := upd
      let t ← uadd 64 mode cur (1 : Nat)
      let cur := t
      let (code_bits, cur) ← forM' r (code_bits, cur) (m_copyStep mode)
      let upd ← setIdx code_bits cur false
      let code_bits := upd
      let t ← uadd 64 mode cur (1 : Nat)
      let cur := t
      let upd ← setIdx code_bits cur false
      let code_bits := upd
      let t ← uadd 64 mode cur (1 : Nat)
      let cur := t
      let upd ← setIdx code_bits cur false
      let code_bits := upd
      let t ← uadd 64 mode cur (1 : Nat)
      let cur := t
      let upd ← setIdx code_bits cur false
      let code_bits := upd
      let t ← uadd 64 mode cur (1 : Nat)
      let cur := t
      let upd ← setIdx code_bits cur false
      let code_bits := upd
      let t ← uadd 64 mode cur (1 : Nat)
      let cur := t
      let upd ← setIdx code_bits cur false
      let code_bits := upd
      let t ← uadd 64 mode cur (1 : Nat)
      let cur := t
      let upd ← setIdx code_bits cur true
      let code_bits := upd
      let t ← uadd 64 mode cur (1 : Nat)
      let cur := t
      let upd ← setIdx code_bits cur true
      let code_bits := upd
      let t ← uadd 64 mode cur (1 : Nat)
      let cur := t
      let upd ← setIdx code_bits cur true
      let code_bits := upd
      let t ← uadd 64 mode cur (1 : Nat)
      let cur := t
      let upd ← setIdx code_bits cur true
      let code_bits := upd
      let t ← uadd 64 mode cur (1 : Nat)
      let cur := t
      let upd ← setIdx code_bits cur true
      let code_bits := upd
      let t ← uadd 64 mode cur (1 : Nat)
      let cur := t
      let upd ← setIdx code_bits cur false
      let code_bits := upd
      let t ← uadd 64 mode cur (1 : Nat)
      let cur := t
      let upd ← setIdx code_bits cur true
      let code_bits := upd
      let t ← uadd 64 mode cur (1 : Nat)
      let cur := t
      let upd ← setIdx code_bits cur false
      let code_bits := upd
      let t ← uadd 64 mode cur (1 : Nat)
      let cur := t
      let upd ← setIdx code_bits cur false
      let code_bits := upd
      let t ← uadd 64 mode cur (1 : Nat)
      let cur := t
      let upd ← setIdx code_bits cur true
      let code_bits := upd
      let t ← uadd 64 mode cur (1 : Nat)
      let cur := t
      let upd ← setIdx code_bits cur true
      let code_bits := upd
      let t ← uadd 64 mode cur (1 : Nat)
      let cur := t
      let upd ← setIdx code_bits cur false
      let code_bits := upd
      let t ← uadd 64 mode cur (1 : Nat)
      let cur := t
      let upd ← setIdx code_bits cur true
      let code_bits := upd
      let t ← uadd 64 mode cur (1 : Nat)
      let cur := t
      let upd ← setIdx code_bits cur false
      let code_bits := upd
      let t ← uadd 64 mode cur (1 : Nat)
      let cur := t
      let upd ← setIdx code_bits cur true
      let code_bits := upd
      let t ← uadd 64 mode cur (1 : Nat)
      let cur := t
      let upd ← setIdx code_bits cur true
      let code_bits := upd
      pure code_bits) := rfl

/-- `emit_ret` as translated: 00000 Rn 000000 11111 0 1 0 0 1101011 (LSB first) -/
theorem T_a64m_emit_ret (mode : Mode) (r : List Bool) (hr : r.length = 5) :
    GenA64M.emit_ret mode r = Res.ok ([false, false, false, false, false] ++ r ++ [false, false, false, false, false, false, true, true, true, true, true, false, true, false, false, true, true, false, true, false, true, true]) := by
  rw [m_emit_ret_unfold]
  dsimp only
  have s0 : (List.replicate 32 false, (0 : Nat)) = (([] : List Bool) ++ List.replicate 32 false, ([] : List Bool).length) := rfl
  have z0 : (List.replicate 32 false) = ([] : List Bool) ++ List.replicate 32 false := rfl
  have z1 : (0 : Nat) = ([] : List Bool).length := rfl
  rw [z0]
  conv => lhs; rw [z1]
  rw [m_set_fill _ _ false (by simp [hr]), Res.bind_ok]
  rw [m_uadd_len mode _ false (by simp [hr]), Res.bind_ok]
  rw [m_set_fill _ _ false (by simp [hr]), Res.bind_ok]
  rw [m_uadd_len mode _ false (by simp [hr]), Res.bind_ok]
  rw [m_set_fill _ _ false (by simp [hr]), Res.bind_ok]
  rw [m_uadd_len mode _ false (by simp [hr]), Res.bind_ok]
  rw [m_set_fill _ _ false (by simp [hr]), Res.bind_ok]
  rw [m_uadd_len mode _ false (by simp [hr]), Res.bind_ok]
  rw [m_set_fill _ _ false (by simp [hr]), Res.bind_ok]
  rw [m_uadd_len mode _ false (by simp [hr]), Res.bind_ok]
  rw [m_forM_fill mode _ r _ (by simp [hr]) (by simp [hr]), Res.bind_ok]
  dsimp only
  rw [m_set_fill _ _ false (by simp [hr]), Res.bind_ok]
  rw [m_uadd_len mode _ false (by simp [hr]), Res.bind_ok]
  rw [m_set_fill _ _ false (by simp [hr]), Res.bind_ok]
  rw [m_uadd_len mode _ false (by simp [hr]), Res.bind_ok]
  rw [m_set_fill _ _ false (by simp [hr]), Res.bind_ok]
  rw [m_uadd_len mode _ false (by simp [hr]), Res.bind_ok]
  rw [m_set_fill _ _ false (by simp [hr]), Res.bind_ok]
  rw [m_uadd_len mode _ false (by simp [hr]), Res.bind_ok]
  rw [m_set_fill _ _ false (by simp [hr]), Res.bind_ok]
  rw [m_uadd_len mode _ false (by simp [hr]), Res.bind_ok]
  rw [m_set_fill _ _ false (by simp [hr]), Res.bind_ok]
  rw [m_uadd_len mode _ false (by simp [hr]), Res.bind_ok]
  rw [m_set_fill _ _ true (by simp [hr]), Res.bind_ok]
  rw [m_uadd_len mode _ true (by simp [hr]), Res.bind_ok]
  rw [m_set_fill _ _ true (by simp [hr]), Res.bind_ok]
  rw [m_uadd_len mode _ true (by simp [hr]), Res.bind_ok]
  rw [m_set_fill _ _ true (by simp [hr]), Res.bind_ok]
  rw [m_uadd_len mode _ true (by simp [hr]), Res.bind_ok]
  rw [m_set_fill _ _ true (by simp [hr]), Res.bind_ok]
  rw [m_uadd_len mode _ true (by simp [hr]), Res.bind_ok]
  rw [m_set_fill _ _ true (by simp [hr]), Res.bind_ok]
  rw [m_uadd_len mode _ true (by simp [hr]), Res.bind_ok]
  rw [m_set_fill _ _ false (by simp [hr]), Res.bind_ok]
  rw [m_uadd_len mode _ false (by simp [hr]), Res.bind_ok]
  rw [m_set_fill _ _ true (by simp [hr]), Res.bind_ok]
  rw [m_uadd_len mode _ true (by simp [hr]), Res.bind_ok]
  rw [m_set_fill _ _ false (by simp [hr]), Res.bind_ok]
  rw [m_uadd_len mode _ false (by simp [hr]), Res.bind_ok]
  rw [m_set_fill _ _ false (by simp [hr]), Res.bind_ok]
  rw [m_uadd_len mode _ false (by simp [hr]), Res.bind_ok]
  rw [m_set_fill _ _ true (by simp [hr]), Res.bind_ok]
  rw [m_uadd_len mode _ true (by simp [hr]), Res.bind_ok]
  rw [m_set_fill _ _ true (by simp [hr]), Res.bind_ok]
  rw [m_uadd_len mode _ true (by simp [hr]), Res.bind_ok]
  rw [m_set_fill _ _ false (by simp [hr]), Res.bind_ok]
  rw [m_uadd_len mode _ false (by simp [hr]), Res.bind_ok]
  rw [m_set_fill _ _ true (by simp [hr]), Res.bind_ok]
  rw [m_uadd_len mode _ true (by simp [hr]), Res.bind_ok]
  rw [m_set_fill _ _ false (by simp [hr]), Res.bind_ok]
  rw [m_uadd_len mode _ false (by simp [hr]), Res.bind_ok]
  rw [m_set_fill _ _ true (by simp [hr]), Res.bind_ok]
  rw [m_uadd_len mode _ true (by simp [hr]), Res.bind_ok]
  rw [m_set_fill _ _ true (by simp [hr]), Res.bind_ok]
  simp [hr, List.replicate]

theorem T_a64m_write_instruction (mode : Mode) (pre : List Nat) (k w : Nat) (hk : 4 ≤ k) (hl : pre.length + k < 1000) :
    GenA64M.write_instruction mode (pre ++ List.replicate k 0) pre.length w =
      Res.ok ((pre ++ le32 w) ++ List.replicate (k - 4) 0, (pre ++ le32 w).length) := by
  have hu : uadd 64 mode pre.length 4 = Res.ok (pre.length + 4) := uadd64_ok _ _ _ (by omega)
  rw [GenA64M.write_instruction]
  dsimp only
  rw [hu, Res.bind_ok]
  have hc : copyInto (pre ++ List.replicate k 0) pre.length (pre.length + 4) (leBytes 4 w) =
      Res.ok ((pre ++ le32 w) ++ List.replicate (k - 4) 0) := by
    unfold copyInto
    have hcnd : pre.length ≤ pre.length + 4 ∧ pre.length + 4 ≤ (pre ++ List.replicate k 0).length ∧
        (leBytes 4 w).length = pre.length + 4 - pre.length := by
      refine ⟨by omega, by simp; omega, ?_⟩
      rw [leBytes4]; simp [le32]
    rw [if_pos hcnd]
    apply congrArg Res.ok
    rw [leBytes4]
    have h1 : List.take pre.length (pre ++ List.replicate k 0) = pre := by
      rw [List.take_append]; simp
    have h2 : List.drop (pre.length + 4) (pre ++ List.replicate k 0) = List.replicate (k - 4) 0 := by
      rw [List.drop_append]; simp
    rw [h1, h2]
  rw [hc, Res.bind_ok, Res.bind_ok]
  simp [le32]

open Inj.Generated.Consts in
/-- `generate_will_return_boolean_jit_code(jit, v)` (AArch64) as translated: the 8 bytes copied to the
    trampoline and flushed are exactly `A64.boolStub v` — `movz x0, #v; ret x30`. -/
theorem T_a64m_boolStub (mode : Mode) (jit : Nat) (v : Bool) (os : Os) (hj : jit + 8 < 18446744073709551616) :
    run (GenA64M.generate_will_return_boolean_jit_code mode jit v) os =
      (Res.ok (), { os with log := os.log ++ macInjectLog (A64.wordsToBytes (A64.boolStub v)) jit }) := by
  have hv : setIdx (List.replicate 16 false) 0 v = Res.ok (v :: List.replicate 15 false) := by
    unfold setIdx; rw [if_pos (by simp)]; rfl
  have hz := T_a64m_emit_movz mode (v :: List.replicate 15 false) true (m_bitsOf 0 2) (m_bitsOf 0 5) (by simp) (m_bitsOf_length _ _) (m_bitsOf_length _ _)
  have hret : GenA64M.emit_ret_x30 mode = Res.ok ([false, false, false, false, false] ++ m_bitsOf 30 5 ++
      [false, false, false, false, false, false, true, true, true, true, true, false, true, false, false, true, true, false, true, false, true, true]) := by
    rw [GenA64M.emit_ret_x30, T_a64m_u8_to_bits_5, Res.bind_ok, T_a64m_emit_ret mode _ (m_bitsOf_length _ _)]
  rw [GenA64M.generate_will_return_boolean_jit_code]
  rw [run_bind_lift_ok _ _ _ _ hv, run_bind_lift_ok _ _ _ _ (T_a64m_u8_to_bits_2 mode 0),
      run_bind_lift_ok _ _ _ _ (T_a64m_u8_to_bits_5 mode 0), run_bind_lift_ok _ _ _ _ hz, run_bind_lift_ok _ _ _ _ hret]
  rw [run_bind_lift_ok _ _ _ _ (T_a64m_bool_array_to_u32 mode _ (by simp [m_bitsOf_length]))]
  have w1 := T_a64m_write_instruction mode [] 8 (A64.bitsToNat (m_bitsOf 0 5 ++ (v :: List.replicate 15 false) ++ m_bitsOf 0 2 ++ [true, false, true, false, false, true] ++ [false, true] ++ [true])) (by omega) (by simp)
  rw [show ([] : List Nat) ++ List.replicate 8 0 = List.replicate 8 0 from rfl, show ([] : List Nat).length = 0 from rfl] at w1
  rw [run_bind_lift_ok _ _ _ _ w1]
  dsimp only
  rw [run_bind_lift_ok _ _ _ _ (T_a64m_bool_array_to_u32 mode _ (by simp [m_bitsOf_length]))]
  rw [run_bind_lift_ok _ _ _ _ (T_a64m_write_instruction mode _ _ _ (by omega) (by simp [le32]))]
  dsimp only
  have hmz : A64.movz (if v then 2 ^ a64BoolValueBit else 0) a64BoolSf a64BoolHw a64BoolReg =
      A64.bitsToNat (m_bitsOf 0 5 ++ v :: List.replicate 15 false ++ m_bitsOf 0 2 ++ [true, false, true, false, false, true] ++ [false, true] ++ [true]) := by
    unfold A64.movz A64.emitWord
    have hb : A64.natToBits (if v then 2 ^ a64BoolValueBit else 0) 16 = v :: List.replicate 15 false := by
      cases v <;> decide
    simp only [emitMovz, A64.emitBits, A64.srcBits, hb, a64BoolSf, a64BoolHw, a64BoolReg, m_natToBits_eq,
      List.append_nil, List.append_assoc, List.cons_append, List.nil_append]
  have hrt : A64.ret a64RetReg = A64.bitsToNat ([false, false, false, false, false] ++ m_bitsOf 30 5 ++
      [false, false, false, false, false, false, true, true, true, true, true, false, true, false, false, true, true, false, true, false, true, true]) := by
    unfold A64.ret A64.emitWord
    simp only [emitRet, A64.emitBits, A64.srcBits, a64RetReg, m_natToBits_eq,
      List.append_nil, List.append_assoc, List.cons_append, List.nil_append]
  rw [← hmz, ← hrt]
  have hlen : ([] ++ le32 (A64.movz (if v then 2 ^ a64BoolValueBit else 0) a64BoolSf a64BoolHw a64BoolReg) ++
      le32 (A64.ret a64RetReg) ++ List.replicate (8 - 4 - 4) 0).length = 8 := by simp [le32]
  rw [run_bind_ok _ _ _ _ _ (T_a64m_inject mode _ jit os (by rw [hlen]; exact hj)), run_pure]
  simp [A64.wordsToBytes, A64.boolStub]
end Inj.Tie

#print axioms Inj.Tie.T_a64m_u64_to_bits
#print axioms Inj.Tie.T_a64m_u8_to_bits_5
#print axioms Inj.Tie.T_a64m_u8_to_bits_2
#print axioms Inj.Tie.T_a64m_emit_movz
#print axioms Inj.Tie.T_a64m_emit_movk
#print axioms Inj.Tie.T_a64m_emit_movz_from_address
#print axioms Inj.Tie.T_a64m_emit_movk_from_address
#print axioms Inj.Tie.T_a64m_emit_br
#print axioms Inj.Tie.T_a64m_bool_array_to_u32
#print axioms Inj.Tie.T_a64m_append_instruction
#print axioms Inj.Tie.T_a64m_tramp
#print axioms Inj.Tie.T_a64m_emit_ret
#print axioms Inj.Tie.T_a64m_write_instruction
#print axioms Inj.Tie.T_a64m_boolStub
#print axioms Inj.Tie.T_a64m_clear_cache
#print axioms Inj.Tie.T_a64m_inject
