/-
  Tie/A64Install.lean — the AArch64/Linux allocator (same source function, translated in the arm64
  configuration) = `Alloc.search`, and the whole AArch64 installation as a sequence of OS calls.
-/
import InjModel.Tie.Alloc
import InjModel.Tie.A64Emit
open Inj Inj.Rt Inj.Alloc

namespace Inj.Tie

theorem T_a64_alloc_loop (mode : Mode) (src size page : Nat) (h : src + 134217728 + page < 18446744073709551616) :
    ∀ (answers : List (Option Nat)), (∀ x, some x ∈ answers → x < 18446744073709551615) →
    ∀ (start : Nat) (log : List (String × List Val)) (tail : List Val),
      (loop src 134217728 page size answers start).1 ≠ AResult.stuck →
      ∃ st', run (GenA64L.allocate_jit_memory_unix_loop1 mode size allocFlags 134217728 src page (answers.length + 1) start)
          { answers := answers.map encAns ++ tail, log := log } =
        (Res.ok (resOf (loop src 134217728 page size answers start).1, st'),
         { answers := (answers.drop (mmapCount (loop src 134217728 page size answers start).2)).map encAns ++ tail,
           log := log ++ (loop src 134217728 page size answers start).2.map encEv }) := by
  intro answers
  induction answers with
  | nil =>
    intro _ start log tail hns
    have hu : uadd 64 mode src 134217728 = Res.ok (src + 134217728) := uadd64_ok _ _ _ (by omega)
    rw [GenA64L.allocate_jit_memory_unix_loop1]
    rw [run_bind_lift_ok _ _ _ _ hu]
    simp only [loop] at hns ⊢
    by_cases c : start ≤ src + 134217728
    · simp [c] at hns
    · simp only [c, if_false, decide_false]
      exact ⟨start, by simp [run_pure, resOf, mmapCount]⟩
  | cons ans rest ih =>
    intro hfresh start log tail hns
    have hu : uadd 64 mode src 134217728 = Res.ok (src + 134217728) := uadd64_ok _ _ _ (by omega)
    have hrest : ∀ x, some x ∈ rest → x < 18446744073709551615 := fun x hx => hfresh x (by simp [hx])
    rw [show (ans :: rest).length + 1 = (rest.length + 1) + 1 from rfl]
    rw [GenA64L.allocate_jit_memory_unix_loop1]
    rw [run_bind_lift_ok _ _ _ _ hu]
    by_cases c : start ≤ src + 134217728
    · have hup : uadd 64 mode start page = Res.ok (start + page) := uadd64_ok _ _ _ (by omega)
      simp only [c, decide_true, if_true, List.map_cons, List.cons_append]
      cases ans with
      | none =>
        simp only [loop, c, if_true] at hns ⊢
        simp only [encAns]
        rw [run_bind_ok _ _ _ _ _ (run_extN_cons _ _ _ _ _)]
        have e1 : ((18446744073709551615 : Int).toNat != 18446744073709551615) = false := by decide
        simp only [e1, Bool.false_eq_true, if_false]
        rw [run_bind_lift_ok _ _ _ _ hup]
        obtain ⟨st', hst⟩ := ih hrest (start + page) (log ++ [("mmap", [Val.n (Int.ofNat start), Val.n (Int.ofNat size), Val.n (sbor 32 (sbor 32 1 2) 4), Val.n allocFlags, Val.n (-1), Val.n 0])]) tail hns
        refine ⟨st', ?_⟩
        rw [hst]
        simp [mmapCount, encEv, allocProt, List.append_assoc]
      | some a =>
        have ha : a < 18446744073709551615 := hfresh a (by simp)
        simp only [encAns]
        rw [run_bind_ok _ _ _ _ _ (run_extN_cons _ _ _ _ _)]
        have e1 : ((Int.ofNat a).toNat != 18446744073709551615) = true := by
          simp only [Int.toNat_natCast, Int.ofNat_eq_natCast, bne_iff_ne, ne_eq]; omega
        simp only [Int.ofNat_eq_natCast] at e1 ⊢
        simp only [e1, if_true]
        have ead : Rt.absDiff (Int.toNat (a : Int)) src = Alloc.absDiff a src := by
          simp [Rt.absDiff, Alloc.absDiff]
        rw [ead]
        by_cases d : Alloc.absDiff a src < 134217728
        · simp only [loop, c, d, if_true, decide_true]
          refine ⟨start, ?_⟩
          simp [run_pure, resOf, mmapCount, encEv, allocProt]
        · simp only [loop, c, d, if_true, if_false, decide_false, Bool.false_eq_true] at hns ⊢
          rw [run_bind_ok _ _ _ _ _ (run_extU _ _ _)]
          rw [run_bind_lift_ok _ _ _ _ hup]
          obtain ⟨st', hst⟩ := ih hrest (start + page) ((log ++ [("mmap", [Val.n (Int.ofNat start), Val.n (Int.ofNat size), Val.n (sbor 32 (sbor 32 1 2) 4), Val.n allocFlags, Val.n (-1), Val.n 0])]) ++ [("munmap", [Val.n (Int.ofNat (Int.toNat (a : Int))), Val.n (Int.ofNat size)])]) tail hns
          refine ⟨st', ?_⟩
          simp only [Int.ofNat_eq_natCast] at hst ⊢
          rw [hst]
          simp [mmapCount, encEv, allocProt, List.append_assoc]
    · simp only [c, decide_false, Bool.false_eq_true, if_false]
      refine ⟨start, ?_⟩
      cases ans <;> simp [loop, c, run_pure, resOf, mmapCount]

/-- `allocate_jit_memory_unix` as translated, run on the kernel's answers (page size from `sysconf`,
    then one answer per hinted `mmap`): it returns what `Alloc.search` returns — the accepted address,
    or the exhaustion panic — after exactly the OS calls `Alloc.search` lists, in that order. -/
theorem T_a64_alloc (mode : Mode) (src size page : Nat) (h : src + 134217728 + page < 18446744073709551616)
    (answers : List (Option Nat)) (hA : ∀ x, some x ∈ answers → x < 18446744073709551615)
    (log : List (String × List Val)) (tail : List Val)
    (hns : (search src 134217728 page size answers).1 ≠ AResult.stuck) :
    run (GenA64L.allocate_jit_memory_unix mode (answers.length + 1) src size)
        { answers := Val.n page :: (answers.map encAns ++ tail), log := log } =
      ((match (search src 134217728 page size answers).1 with
        | AResult.ok a => Res.ok a
        | _ => Res.panic "Failed to allocate JIT memory within ±m"),
       { answers := (answers.drop (mmapCount (search src 134217728 page size answers).2)).map encAns ++ tail,
         log := log ++ [("sysconf", [Val.n 30])] ++ (search src 134217728 page size answers).2.map encEv }) := by
  have hp : castSU 64 (page : Int) = page := by
    unfold castSU
    have : ((page : Int) % ((2 ^ 64 : Nat) : Int)) = page := by
      have e : (((2:Nat)^64 : Nat) : Int) = 18446744073709551616 := by decide
      rw [e]; omega
    rw [this]; simp
  obtain ⟨st', hst⟩ := T_a64_alloc_loop mode src size page h answers hA (src - 134217728)
    (log ++ [("sysconf", [Val.n 30])]) tail hns
  rw [GenA64L.allocate_jit_memory_unix]
  rw [run_bind_ok _ _ _ _ _ (run_extI_cons _ _ _ _ _)]
  simp only [hp, satSub]
  simp only [allocFlags] at hst
  rw [run_bind_ok _ _ _ _ _ hst]
  unfold search at hns ⊢
  cases hr : (loop src 134217728 page size answers (src - 134217728)).1 with
  | ok a => simp [resOf, run_pure]
  | panic => simp [resOf, run_panicNow]
  | stuck => exact absurd hr hns



theorem T_a64_read_bytes (mode : Mode) (ptr len : Nat) (bs : List Nat) (rest : List Val) (log : List (String × List Val)) :
    run (GenA64L.read_bytes mode ptr len) { answers := Val.bs bs :: rest, log := log } =
      (Res.ok bs, { answers := rest, log := log ++ [("read_bytes", [Val.n ptr, Val.n len])] }) := by
  rw [GenA64L.read_bytes, run_bind_ok _ _ _ _ _ (run_extB_cons _ _ _ _ _), run_pure]
  rfl

/-- The whole AArch64/Linux installation `replace_function_with_other_function(func, fake)` as translated,
    first hint honoured with `jit`: the 12 entry bytes are read, the hinted 20-byte `mmap`, the
    trampoline `A64.tramp fake` copied to `jit` and flushed (with the barrier), then the entry patched
    with `A64.entryLinux func jit` and the guard built. -/
theorem T_a64_install_exec (mode : Mode) (func fake jit : Nat) (ws saved : List Nat)
    (log : List (String × List Val)) (tail : List Val)
    (hf : func + 134217728 + 8192 < 9223372036854775808) (hj : jit < 9223372036854775808)
    (hnear : Alloc.absDiff jit func < 134217728)
    (hws : A64.entryLinux func jit = Res.ok ws) :
    run (GenA64L.replace_function_with_other_function mode 2 func fake)
        { answers := Val.bs saved :: Val.n (4096 : Nat) :: Val.n jit :: Val.n 4096 :: Val.n 0 :: tail, log := log } =
      (Res.ok (), { answers := tail, log := log ++
        [("read_bytes", [Val.n func, Val.n 12]),
         ("sysconf", [Val.n 30]),
         ("mmap", [Val.n ((func - 134217728 : Nat) : Int), Val.n 20, Val.n allocProt, Val.n allocFlags, Val.n (-1), Val.n 0]),
         ("copy_nonoverlapping", [Val.bs (A64.wordsToBytes (A64.tramp fake)), Val.n jit, Val.n 20]),
         ("__clear_cache", [Val.n jit, Val.n ((jit + 20 : Nat) : Int)]), ("asm", []),
         ("sysconf", [Val.n 30]),
         ("mprotect", [Val.n ((Machine.protectSpan func 12).1 : Nat), Val.n ((Machine.protectSpan func 12).2 : Nat), Val.n 7]),
         ("copy_nonoverlapping", [Val.bs (A64.wordsToBytes ws), Val.n func, Val.n 12]),
         ("__clear_cache", [Val.n func, Val.n ((func + 12 : Nat) : Int)]), ("asm", []),
         ("PatchGuard::new", [Val.n func, Val.bs saved, Val.n 12, Val.n jit, Val.n 20])] }) := by
  have hs : search func 134217728 4096 20 [some jit] =
      (AResult.ok jit, [AEvent.mmap (func - 134217728) 20 (some jit)]) := by
    have c : func - 134217728 ≤ func + 134217728 := by omega
    simp [search, loop, c, hnear]
  have ha := T_a64_alloc mode func 20 4096 (by omega) [some jit] (by intro x hx; simp at hx; omega)
    (log ++ [("read_bytes", [Val.n func, Val.n ((12 : Nat) : Int)])]) (Val.n 4096 :: Val.n 0 :: tail) (by rw [hs]; simp)
  rw [hs] at ha
  simp only [List.map_cons, List.map_nil, encAns, List.cons_append, List.nil_append, List.length_cons,
    List.length_nil, Nat.zero_add, Nat.reduceAdd, mmapCount, List.drop_succ_cons, List.drop_zero, encEv] at ha
  have ha2 : run (GenA64L.allocate_jit_memory mode 2 func 20)
      { answers := Val.n ((4096 : Nat) : Int) :: Val.n (jit : Int) :: Val.n 4096 :: Val.n 0 :: tail, log := log ++ [("read_bytes", [Val.n func, Val.n ((12 : Nat) : Int)])] } =
      (Res.ok jit, { answers := Val.n 4096 :: Val.n 0 :: tail, log := log ++ [("read_bytes", [Val.n func, Val.n ((12 : Nat) : Int)])] ++ [("sysconf", [Val.n 30])] ++ [("mmap", [Val.n ((func - 134217728 : Nat) : Int), Val.n ((20 : Nat) : Int), Val.n allocProt, Val.n allocFlags, Val.n (-1), Val.n 0])] }) := by
    rw [GenA64L.allocate_jit_memory]; exact ha
  have he := T_a64_entry mode func jit 20 saved
    (log ++ [("read_bytes", [Val.n func, Val.n ((12 : Nat) : Int)])] ++ [("sysconf", [Val.n 30])] ++ [("mmap", [Val.n ((func - 134217728 : Nat) : Int), Val.n ((20 : Nat) : Int), Val.n allocProt, Val.n allocFlags, Val.n (-1), Val.n 0])] ++
      [("copy_nonoverlapping", [Val.bs (A64.wordsToBytes (A64.tramp fake)), Val.n jit, Val.n 20]),
       ("__clear_cache", [Val.n jit, Val.n ((jit + 20 : Nat) : Int)]), ("asm", [])]) tail (by omega) hj
  rw [hws] at he
  rw [GenA64L.replace_function_with_other_function]
  rw [run_bind_ok _ _ _ _ _ (T_a64_read_bytes mode func 12 saved _ log)]
  dsimp only
  rw [run_bind_ok _ _ _ _ _ ha2]
  rw [run_bind_ok _ _ _ _ _ (T_a64_tramp mode jit fake _ (by omega))]
  rw [run_bind_ok _ _ _ _ _ he, run_pure]
  simp
/-- The AArch64/Linux boolean installation `replace_function_return_boolean(func, v)` as translated, first hint
    honoured with `jit`: the 12 entry bytes are read, the hinted 8-byte `mmap`, the stub `A64.boolStub v`
    (`movz x0, #v; ret`) copied to `jit` and flushed (with the barrier), then the entry patched with
    `A64.entryLinux func jit` and the guard built. -/
theorem T_a64_install_bool_exec (mode : Mode) (func jit : Nat) (v : Bool) (ws saved : List Nat)
    (log : List (String × List Val)) (tail : List Val)
    (hf : func + 134217728 + 8192 < 9223372036854775808) (hj : jit < 9223372036854775808)
    (hnear : Alloc.absDiff jit func < 134217728)
    (hws : A64.entryLinux func jit = Res.ok ws) :
    run (GenA64L.replace_function_return_boolean mode 2 func v)
        { answers := Val.bs saved :: Val.n (4096 : Nat) :: Val.n jit :: Val.n 4096 :: Val.n 0 :: tail, log := log } =
      (Res.ok (), { answers := tail, log := log ++
        [("read_bytes", [Val.n func, Val.n 12]),
         ("sysconf", [Val.n 30]),
         ("mmap", [Val.n ((func - 134217728 : Nat) : Int), Val.n 8, Val.n allocProt, Val.n allocFlags, Val.n (-1), Val.n 0]),
         ("copy_nonoverlapping", [Val.bs (A64.wordsToBytes (A64.boolStub v)), Val.n jit, Val.n 8]),
         ("__clear_cache", [Val.n jit, Val.n ((jit + 8 : Nat) : Int)]), ("asm", []),
         ("sysconf", [Val.n 30]),
         ("mprotect", [Val.n ((Machine.protectSpan func 12).1 : Nat), Val.n ((Machine.protectSpan func 12).2 : Nat), Val.n 7]),
         ("copy_nonoverlapping", [Val.bs (A64.wordsToBytes ws), Val.n func, Val.n 12]),
         ("__clear_cache", [Val.n func, Val.n ((func + 12 : Nat) : Int)]), ("asm", []),
         ("PatchGuard::new", [Val.n func, Val.bs saved, Val.n 12, Val.n jit, Val.n 8])] }) := by
  have hs : search func 134217728 4096 8 [some jit] =
      (AResult.ok jit, [AEvent.mmap (func - 134217728) 8 (some jit)]) := by
    have c : func - 134217728 ≤ func + 134217728 := by omega
    simp [search, loop, c, hnear]
  have ha := T_a64_alloc mode func 8 4096 (by omega) [some jit] (by intro x hx; simp at hx; omega)
    (log ++ [("read_bytes", [Val.n func, Val.n ((12 : Nat) : Int)])]) (Val.n 4096 :: Val.n 0 :: tail) (by rw [hs]; simp)
  rw [hs] at ha
  simp only [List.map_cons, List.map_nil, encAns, List.cons_append, List.nil_append, List.length_cons,
    List.length_nil, Nat.zero_add, Nat.reduceAdd, mmapCount, List.drop_succ_cons, List.drop_zero, encEv] at ha
  have ha2 : run (GenA64L.allocate_jit_memory mode 2 func 8)
      { answers := Val.n ((4096 : Nat) : Int) :: Val.n (jit : Int) :: Val.n 4096 :: Val.n 0 :: tail, log := log ++ [("read_bytes", [Val.n func, Val.n ((12 : Nat) : Int)])] } =
      (Res.ok jit, { answers := Val.n 4096 :: Val.n 0 :: tail, log := log ++ [("read_bytes", [Val.n func, Val.n ((12 : Nat) : Int)])] ++ [("sysconf", [Val.n 30])] ++ [("mmap", [Val.n ((func - 134217728 : Nat) : Int), Val.n ((8 : Nat) : Int), Val.n allocProt, Val.n allocFlags, Val.n (-1), Val.n 0])] }) := by
    rw [GenA64L.allocate_jit_memory]; exact ha
  have he := T_a64_entry mode func jit 8 saved
    (log ++ [("read_bytes", [Val.n func, Val.n ((12 : Nat) : Int)])] ++ [("sysconf", [Val.n 30])] ++ [("mmap", [Val.n ((func - 134217728 : Nat) : Int), Val.n ((8 : Nat) : Int), Val.n allocProt, Val.n allocFlags, Val.n (-1), Val.n 0])] ++
      [("copy_nonoverlapping", [Val.bs (A64.wordsToBytes (A64.boolStub v)), Val.n jit, Val.n 8]),
       ("__clear_cache", [Val.n jit, Val.n ((jit + 8 : Nat) : Int)]), ("asm", [])]) tail (by omega) hj
  rw [hws] at he
  rw [GenA64L.replace_function_return_boolean]
  rw [run_bind_ok _ _ _ _ _ (T_a64_read_bytes mode func 12 saved _ log)]
  dsimp only
  rw [run_bind_ok _ _ _ _ _ ha2]
  rw [run_bind_ok _ _ _ _ _ (T_a64_boolStub mode jit v _ (by omega))]
  rw [run_bind_ok _ _ _ _ _ he, run_pure]
  simp
end Inj.Tie
#print axioms Inj.Tie.T_a64_alloc_loop
#print axioms Inj.Tie.T_a64_alloc
#print axioms Inj.Tie.T_a64_read_bytes
#print axioms Inj.Tie.T_a64_install_exec
#print axioms Inj.Tie.T_a64_install_bool_exec
