-- This module serves as the root of the `InjModel` library.
-- Import modules here that should be built as part of the library.
import InjModel.Basic
