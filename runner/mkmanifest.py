#!/usr/bin/env python3
"""Regenerates MANIFEST.json from runner/props.py (claimed properties) + properties.jsonl."""
import json
import os
import sys

ROOT = os.path.dirname(os.path.dirname(os.path.abspath(__file__)))
sys.path.insert(0, os.path.join(ROOT, "runner"))
import props as PROPS  # noqa

ids = [json.loads(l)["id"] for l in open(os.path.join(ROOT, "properties.jsonl"))]
checks = []
na = []
for pid in ids:
    cfg = PROPS.TABLE.get(pid)
    if cfg is None or cfg.get("unclaimed"):
        na.append({"property_id": pid, "reason": (cfg or {}).get("unclaimed", "check not built yet (work in progress; DESIGN.md section 6 describes the plan)")})
        continue
    checks.append({
        "property_id": pid,
        "quick_cmd": f"./check {pid} --tier quick",
        "thorough_cmd": f"./check {pid} --tier thorough",
        "evidence_file": f"evidence/{pid}.json",
        "replay_cmd_template": f"./check {pid} --replay {{path}}",
        "engine": "lean4-model+correspondence",
        "level_claimed": {"category": "proof", "text": cfg["level_text"], "design_ref": cfg.get("design_ref", f"DESIGN.md section 6, {pid}")},
        "level_note": cfg["level_note"],
        "technique": cfg.get("technique", "Lean 4 theorems over a hand-written executable model; model tied to /repo by (1) translator-regenerated tables, (2) function bodies translated from the Rust source on every run (Generated/Fns.lean) with bridge/refinement theorems to the model where proved, and (3) a differential correspondence run (shadow crate + Lean driver) in which implementation, model and translated source must agree"),
    })
m = {
    "version": 1,
    "setup_cmd": "./setup.sh",
    "hooks": {
        "guard": "injectorpp_verif",
        "enable": "no hook is needed: checks compile /repo/src unmodified (harness/shadow/build.rs copies it and appends accessor snippets outside /repo); RUSTFLAGS='--cfg injectorpp_verif' is reserved",
        "baseline_off_cmd": "cd /repo && cargo test --workspace --no-fail-fast --offline",
        "source_commits": [],
        "add_only": True,
    },
    "engines": [
        {"name": "lean4-model+correspondence", "path": "lean/ harness/ translate/ check",
         "serves_properties": [c["property_id"] for c in checks],
         "kind_free_text": "Lean 4 proofs (lake build + #print axioms audit, leanchecker in thorough) over a model; translator (translate/extract.py: constants, structural facts, fake! arm table, and function bodies via rs2lean.py) regenerates Generated/*.lean from /repo each run; bridge theorems (InjModel/Tie) relate translated functions to the model; Rust harness runs /repo's source (shadow crate with shim libc, plus the real crate) and the compiled Lean driver replays the same inputs through the model"}
    ],
    "checks": checks,
    "notes": "Every check: translator -> lake build of the property's theorem module -> cargo build of the harness from /repo's working tree -> correspondence lines through the Lean driver -> verdict. See DESIGN.md.",
    "not_applicable": na,
}
json.dump(m, open(os.path.join(ROOT, "MANIFEST.json"), "w"), indent=1)
print("claimed:", [c["property_id"] for c in checks])
