"""Per-property configuration for ./check (pipelines, trusted base, generation rule)."""

TB_TRANSLATED = "function-level translator translate/rs2lean.py (Rust subset -> Lean over Model/Rt.lean) and the semantics of Rt's primitives (fixed-width arithmetic per build profile, casts, slices, strings as char lists with UTF-8 byte offsets, trim = Unicode White_Space); for the interface layer the translation is an effect skeleton: calls on the object graph are logged by source path, pattern matches on opaque values are decided by the oracle (so Vec::pop order, mutex semantics and the meaning of the back-end calls are assumed, not derived); validated on every run by executing the translated functions on the correspondence lines (three-way agreement) and tied to the models by the bridge theorems of lean/InjModel/Tie"

TB_COMMON = [
    "Lean 4.33 kernel; axioms limited to propext, Quot.sound, Classical.choice (audited per theorem from #print axioms)",
    "statements in lean/InjModel/Props and the executable property predicates in lean/Driver",
    "translate/extract.py (Rust -> Generated/*.lean; items it does not recognise keep the pinned value of translate/pinned.json and are listed in coverage.translator) and the correspondence harness (harness/: shim libc, shadow crate build.rs transformations, generators)",
    "all of /repo is modelled, not verified: the tie is the differential correspondence run on every check",
    TB_TRANSLATED,
]
ISA_X86 = "hand-written x86-64 ISA fragment (E9 rel32, REX.W B8 imm64, FF E0, REX.W C7 C0 imm32, C3) in Model/X86.lean, validated against the real CPU by native runs"

TABLE = {}

TABLE["C01"] = {
    "pipelines": [
        {"name": "enc-x86-debug", "cmd": ["enc-x86"], "n_quick": 30000, "n_thorough": 2000000, "timeout_thorough": 3000},
        {"name": "enc-x86-release", "cmd": ["enc-x86"], "n_quick": 30000, "n_thorough": 2000000, "release": True, "timeout_thorough": 3000},
    ],
    "trusted_base": TB_COMMON + [ISA_X86],
    "rule": "structured boundary stream (14 anchor addresses x displacement {i32::MIN,i32::MAX,0,+-2^32} +- 7, overflow windows) followed by PRNG address pairs; a case is distinct by its (mode, ori, target) and non-trivial when the driver tags it short/long/panic (not bad-line)",
    "assumptions": ["x86-64 ISA fragment as transcribed from the SDM", "rustc debug/release overflow semantics as modelled by Mode"],
    "level_text": "Theorems: for all 64-bit (ori, target) and both build profiles the emitted branch, executed by an independent ISA fragment from any CPU state, lands exactly on target (or the encoder panicked and emitted nothing). The model is tied to patch_amd64.rs by calling the unmodified function on boundary-structured and random address pairs and comparing bytes; the landing predicate is also evaluated on the implementation's bytes.",
    "level_note": "Trusted: Lean kernel, the x86-64 ISA fragment, the shadow-crate build (source copied unmodified), the driver's parsing. Modelled not verified: all Rust code.",
}

ISA_A64 = "hand-written A64 ISA fragment (MOVZ, MOVK, BR, RET, B, NOP, ADRP, ADD imm) in Model/A64.lean, transcribed from the Arm ARM; cannot be validated against hardware in this sandbox"
ISA_A32 = "hand-written A32/T32 fragment (LDR literal with Align(PC,4), BX interworking, Thumb NOP 46C0) in Model/A32.lean, transcribed from the Arm ARM; not validated against hardware"

TABLE["C15"] = {
    "pipelines": [
        {"name": "enc-arm", "cmd": ["enc-arm"], "n_quick": 4000, "n_thorough": 200000, "timeout_thorough": 3000},
    ],
    "trusted_base": TB_COMMON + [ISA_A64, "the arm64 sources are compiled for the x86-64 host with their first-line cfg stripped (macOS variant: target_os=\"macos\" replaced by all() in the two arm64 files)"],
    "rule": "emitters per field value; trampoline: each 16-bit chunk in each of 4 positions (every 257th value quick, exhaustive thorough) plus PRNG addresses; entry: 7 in-page offsets x displacements around +-128MiB, +-512MiB, +-2GiB, a band of word-aligned displacements across the +-128MiB limits, PRNG; macOS long jump: PRNG pc/target around the +-128MiB and +-4GiB limits. Distinct by the input part of the line; lines tagged a32* belong to C16 and are ignored here",
    "assumptions": ["A64 ISA fragment as transcribed", "user-space addresses below 2^63, instruction addresses word aligned (hypotheses of the theorems)"],
    "filter_prefix": ["a64"],
    "level_text": "Theorems for all 64-bit fake addresses / all word-aligned displacements: trampoline words decode to movz/movk x3/br x9 building exactly the fake address, entry word is a B landing exactly on the trampoline or the install is refused, macOS long form reaches the target within ADRP's range, only x9/x16 (x0 for the boolean) written. The emitter model is built from bit sequences and constants regenerated from the Rust source; the unmodified arm64 sources are run on the host and compared byte for byte, and the decode-and-follow predicate is evaluated on the implementation's bytes.",
    "level_note": "Trusted: Lean kernel, the A64 fragment (manual transcription, not hardware-validated), translator, shadow build. Not modelled: dsb/isb, macOS patch_function.",
}
TABLE["C16"] = {
    "pipelines": [
        {"name": "enc-arm", "cmd": ["enc-arm"], "n_quick": 4000, "n_thorough": 200000, "timeout_thorough": 3000},
    ],
    "trusted_base": TB_COMMON + [ISA_A32, "patch_arm.rs compiled for the x86-64 host (cfg stripped), arenas below 4 GiB so that `as u32` casts are faithful"],
    "rule": "three entry cases (A32; T32 at 0 mod 4; T32 at 2 mod 4) x fake state x page-end offsets + PRNG (entry offset, 32-bit fake address); distinct by (src, target); lines tagged a64* belong to C15 and are ignored here",
    "assumptions": ["A32/T32 fragment as transcribed", "AAPCS32 callee-saved set r4-r11, sp"],
    "filter_prefix": ["a32"],
    "level_text": "Theorems for all memories, all entry and fake addresses in each of the three entry cases: the word the literal load reads is the fake's address and BX reaches it in the right state; exactly 12 bytes at the Thumb-stripped entry are written. The callee-saved clause is proved FALSE of the code (C16_callee_full_false, witness replayed on the host-compiled bytes) and reported as known finding F6; the partial theorem bounds the damage to r9 / r7.",
    "level_note": "Trusted: Lean kernel, the A32/T32 fragment (not hardware-validated), translator, shadow build.",
}

HIST_PIPE = {"name": "hist", "cmd": ["hist"], "n_quick": 150, "n_thorough": 3000, "timeout": 900, "timeout_thorough": 3400}
HIST_RULE = ("PRNG install/drop histories through the public API on synthetic functions: 5 address regions (0x10000, 1 GiB, 64 GiB, mid, top of user space), "
             "up to 14 targets per history incl. entries at page offsets 4093/4091 (page-crossing), 16-byte-pitch neighbours and a linker-style stub whose whole entry is `jmp rel32` to the next function, near and >4 GiB-far fakes, "
             "kinds raw/unchecked/closure/fake!/func!/boolean, 1-3 lifetimes, repeated targets favoured, drop by scope exit or by unwinding; each history in a forked child. "
             "Distinct by full line; non-trivial when the driver tags it with at least one of rep/cross/long-tramp/unwind")
MACHINE_TB = TB_COMMON + [ISA_X86, "OS behaviour assumed: mmap returns a fresh zero-filled page-aligned region disjoint from existing mappings and from the target's entry bytes; mprotect/munmap do what they say; __clear_cache synchronises the given range (interposed by the shim, a no-op on x86-64)"]

ASYNC_PIPE = {"name": "asyncs", "cmd": ["asyncs"], "n_quick": 300, "n_thorough": 20000, "timeout": 900, "timeout_thorough": 3400}
TABLE["C02"] = {
    "pipelines": [HIST_PIPE, {"name": "selfuse", "cmd": ["selfuse"], "n_quick": 1, "n_thorough": 1, "timeout": 300},
                  dict(ASYNC_PIPE, own_keys_only=["c02."])],
    "fail_keys": ["c02."],
    "trusted_base": MACHINE_TB + ["Rust drop semantics (struct fields in declaration order after the Drop impl runs; Vec::pop order) as read by translate/layout.py"],
    "rule": HIST_RULE + "; plus three scenarios in which a libc function the library itself calls while restoring (sysconf, mprotect, munmap) is the faked target, with a fake that does the real work by raw system call",
    "assumptions": ["freshness of trampoline mappings (FreshMaps) and disjointness from entry ranges, as the OS guarantees"],
    "level_text": "Theorem C02_restores: for every install history (any length, repeated and overlapping targets, any payload kinds) the drop order extracted from the source (newest first) restores every byte outside the unmapped trampoline pages, the mapping set, and leaves no guard; proved by a LIFO induction. The model is replayed against real histories run through the public API (bytes of every entry, trampoline bytes, OS call sequence, call results before/after drop, drop by unwinding).",
    "level_note": "Trusted: Lean kernel, translator's reading of the Drop impl, shadow build, /proc/self/maps and forked-child observation. Modelled not verified: all Rust code.",
}
ARM_FRAME_KEYS = ["a32.frame", "a64.frame", "a64.tramp.overrun", "a64.entry.refused-but-written"]
TABLE["C03"] = {
    "pipelines": [HIST_PIPE, {"name": "enc-arm", "cmd": ["enc-arm"], "n_quick": 2000, "n_thorough": 100000, "timeout_thorough": 3000, "own_keys_only": ARM_FRAME_KEYS}],
    "fail_keys": ["c03."] + ARM_FRAME_KEYS,
    "trusted_base": MACHINE_TB,
    "rule": HIST_RULE + "; C03 predicate: every arena byte outside the 16-byte slots of named targets equals its snapshot after every operation, never-named targets keep their bytes, hash of all r-x file-backed mappings unchanged after drop",
    "assumptions": ["freshness of trampoline mappings"],
    "level_text": "Theorems C03_frame_install / _drop / _lifetime: in every state reachable by installs and guard restores, a byte outside the named entry ranges [func, func+12) and outside the run's own trampoline pages is unchanged; C03_slot bounds every patch by 12 bytes. Correspondence: byte-level frame check of code arenas packed at 16-byte pitch and hash of program text and shared libraries.",
    "level_note": "Trusted as for C02. mprotect leaves target pages rwx for good: a permission, not a byte, outside C03.",
}
TABLE["C12"] = {
    "pipelines": [dict(HIST_PIPE, n_quick=150), {"name": "cycles", "cmd": ["cycles"], "n_quick": 2000, "n_thorough": 100000, "timeout": 900, "timeout_thorough": 3400}],
    "fail_keys": ["c12."],
    "trusted_base": MACHINE_TB,
    "rule": HIST_RULE + "; plus a cycles run: N create/install/drop cycles in one process with 1-8 installs per cycle (mixed kinds, repeated targets), rwx anonymous mappings compared before/after and the shim's owned-mapping table empty",
    "assumptions": ["freshness of trampoline mappings"],
    "level_text": "Theorems C12_balance (any number of lifetimes: mapping set unchanged, no guard left) and C12_once (the drop's munmap calls are exactly the installs' mmap calls, each once, own address and length; installs unmap nothing). Correspondence: shim log of every mmap/munmap (foreign munmaps flagged), /proc/self/maps before and after, thousands of cycles.",
    "level_note": "Trusted as for C02; the failing-install path (allocator) is C11's.",
}
TABLE["C17"] = {
    "pipelines": [HIST_PIPE, {"name": "panics", "cmd": ["panics"], "n_quick": 400, "n_thorough": 20000, "timeout": 900, "timeout_thorough": 3400, "own_keys_only": ["c17."]},
                  {"name": "enc-arm", "cmd": ["enc-arm"], "n_quick": 2000, "n_thorough": 100000, "timeout_thorough": 3000, "own_keys_only": ["c17."], "filter_prefix": ["macflush"]}],
    "fail_keys": ["c17."],
    "trusted_base": MACHINE_TB,
    "rule": HIST_RULE + "; C17 predicate on the implementation: each installed trampoline and entry range is covered by a __clear_cache call whose snapshot equals the final bytes; for every restored byte the last covering flush already holds the final value; plus (borrowed panic scripts, key c17.) installations attempted under a W^X policy (mprotect refuses W+X with EACCES, allows RW and RX): whatever bytes of the entry changed must be covered by a later flush request; plus the macOS memory path judged on the source as translated (GenMac: inject_asm_code, patch_function, PatchGuard::drop run by the driver on address triples): trampoline, entry and restoration each covered by a sys_icache_invalidate requested after the write",
    "assumptions": ["__clear_cache interposition sees every call the library makes (Linux path)"],
    "level_text": "Theorem C17_covers: for every install history and either drop order the event log is flush-clean (at each return to the user no written byte is unflushed); per-operation versions for a single install and a single restore. Correspondence: the interposed __clear_cache records range and content at call time; the model must also predict the exact sequence of flush calls.",
    "level_note": "x86-64 has coherent instruction caches, so only the call discipline is observable here; macOS path (sys_icache_invalidate in patch_function only) is not modelled.",
}

TABLE["C01"]["pipelines"].append(HIST_PIPE)
TABLE["C01"]["fail_keys"] = ["c01.", "__nokey__"]
TABLE["C01"]["rule"] += "; plus the install/drop histories of C02 (entries at page offsets 4093/4091 spanning two pages, 5 address regions from 0x10000 to the top of user space, near and far fakes, six installation flavours): the entry bytes are decoded and followed through the trampoline, and the target is really called"
TABLE["C01"]["level_text"] += " Bridge theorems (Tie/X86, Tie/Install): generate_branch_to_target_function, protected_region_size, patch_function, patch_and_guard and replace_function_with_other_function as translated from the source on this run equal the model functions / perform exactly the OS calls of Machine.installX86 (T_x86_genBranch, T_x86_install_refines)."
TABLE["C01"]["level_text"] += " Theorem C01_reach lifts this to the installed machine state for every placement (incl. page-spanning entries): from func, at most four instructions reach exactly fake, only rip/rax change, and the install does not fault."

CNT_PIPE = {"name": "counter", "cmd": ["counter"], "n_quick": 150, "n_thorough": 3000, "timeout": 900, "timeout_thorough": 3400}
TABLE["C06"] = {
    "pipelines": [CNT_PIPE, {"name": "arms", "kind": "armgen", "own_keys_only": ["c06."]}],
    "fail_keys": ["c06."],
    "trusted_base": TB_COMMON + ["AtomicUsize::fetch_add is atomic, so every thread interleaving is a linearisation (a list of calls)", "the real fake! macro and CallCountVerifier run through the shadow crate; panic messages classified by substring"],
    "rule": "every N in 0..6 (0..64 thorough) x k in 0..N+2 matching calls with PRNG-inserted non-matching calls on one thread (exact sequence compared), then PRNG (N, k) split over 2-16 threads behind a barrier (counts, per-thread order, exit verdict compared); thorough adds a 16-thread 100k-call hammer; lines tagged life belong to C07; plus, for every `times` arm of the macro found in macros.rs, the compiled instantiation driven through m^N x m m with admission, rejection and exit verdict judged against the counter of the common meaning (keys c06.arm-*). Distinct by full line; non-trivial = driver tag other than bad-line",
    "assumptions": ["atomicity of fetch_add", "panics in safe-ABI fakes unwind"],
    "filter_prefix": ["cnt", "armrun", "armhammer"],  # cnt, cnthammer, cntshared
    "level_text": "Theorems over all N and all schedules (lists of calls = linearisations over any number of threads): a matching call is admitted iff fewer than N matching calls precede it (C06_admit), non-matching calls always panic and are never counted (C06_reject, C06_final), outcome counts depend only on k and N (C06_split), exit verdict panics iff k != N naming both and never while unwinding (C06_exit, tied to verifier.rs by the translator). Each macro arm is linked to this counter model by C08. Correspondence: real macro, real threads.",
    "level_note": "Trusted: Lean kernel, atomicity assumption, translator's reading of verifier.rs; liveness/fairness not claimed.",
}
TABLE["C07"] = {
    "pipelines": [CNT_PIPE],
    "fail_keys": ["c07."],
    "trusted_base": TB_COMMON + ["a fake! call site owns one static counter (macro hygiene of `static FAKE_COUNTER` inside the expansion block)"],
    "rule": "PRNG sequences of 2-8 (2-50 thorough) consecutive injector lifetimes that evaluate the same fake!(..., times: N) source line, call counts around N (N, N-1, random up to N+2) with occasional non-matching calls; every call outcome and every scope-exit verdict compared; lines tagged cnt belong to C06",
    "assumptions": ["one installation of a given call site at a time"],
    "filter_prefix": ["life", "cntshared"],
    "level_text": "Theorem C07_local: for every sequence of lifetimes evaluating the same call site and any counter value left behind, each lifetime's call outcomes and exit verdict equal those it would have alone, because installation resets the counter (fact extracted from will_execute by the translator: C07_source_resets); C07_without_reset_false documents the pre-fix defect. Correspondence: real macro over consecutive lifetimes in one process.",
    "level_note": "Trusted: Lean kernel, translator's pattern for the reset (counter.store(0, ..) before will_execute_raw).",
}

TABLE["C08"] = {
    "pipelines": [{"name": "arms", "kind": "armgen"}],
    "fail_keys": ["c08."],
    "trusted_base": TB_COMMON + ["macro_rules! tries arms in order and a `$x:ty` fragment also matches `()` (assumed in FakeArm.matchesUse)", "runner/armgen.py generates the per-arm instantiations (one target per ABI, when/assign/returns with observable effects)", "a panic escaping an extern \"C\"/\"system\" fake aborts by language rule: predicted by the model, not judged"],
    "rule": "every arm of macro_rules! fake found in macros.rs at check time (52 on this tree) x N in {0,1,2} for arms with `times`: one compiled instantiation each, driven through the script m^N x m m (m: argument satisfying `when`, x: not) in a forked child; per call the outcome class, returned value, out-parameter, assign and returns evaluation counters are compared with FakeArm.sem of that arm and with the common meaning refSem; exhaustive over the arm table",
    "assumptions": ["rustc accepts/rejects instantiations as the real compiler does (it is the real compiler)"],
    "level_text": "Theorems over the arm table regenerated from macros.rs on every run: every arm uses only bound metavariables (C08_scoped), fn-kind and return type of the generated fake and of the coercion equal the pattern's (C08_kind), every arm has the one common meaning for every call environment - all counter values and N (C08_meaning = general lemma allowed_meaning + decide over the table), counting verifier iff `times` (C08_verifier), no arm shadowed (C08_reach). The translator and rustc's side are validated by compiling and running one instantiation per arm and comparing call by call.",
    "level_note": "Trusted: Lean kernel, translate/arms.py patterns (unrecognised text becomes `unknown` and fails C08_shapes), armgen instantiations.",
}

TABLE["C11"] = {
    "pipelines": [{"name": "alloc", "cmd": ["alloc"], "n_quick": 300, "n_thorough": 20000, "timeout": 900, "timeout_thorough": 3400},
                  {"name": "enc-arm", "cmd": ["enc-arm"], "n_quick": 2000, "n_thorough": 100000, "timeout_thorough": 3000, "own_keys_only": ["c11."], "filter_prefix": ["winalloc"]}],
    "fail_keys": ["c11."],
    "trusted_base": TB_COMMON + ["the shim's scripted mmap (fail / honour the hint / place at a chosen address, always backed by a real mapping) stands in for the kernel; the real kernel is used for the reserved-neighbourhood cases", "the oracle answers fed to the model are the addresses the (scripted or real) kernel returned"],
    "rule": "6 target addresses (0x10000 and 64 MiB: window clipped at 0; exactly 128 MiB; 4 GiB; mid; top of user space) x sizes 8/12/20 x boundary scripts (placement exactly at +-range, one page inside, one page outside then inside, failures then honour, far away), PRNG scripts of 1-6 answers, whole-window exhaustion (all 65537 probes fail) and full-except-one-page at offsets 0, 1, middle, last-1, last for clipped and unclipped windows, real kernel with the +-128 MiB neighbourhood reserved PROT_NONE except one page (3 positions) or entirely, and one complete install whose allocation is exhausted; plus the Windows / AArch64 allocator judged on the source as translated (GenWinA64 run by the driver on page size + VirtualAlloc answer scripts: an accepted placement is reachable by the entry encoder, everything obtained and not returned was released). Distinct by (src, size, answer sequence)",
    "assumptions": ["mmap never returns an address the process already holds (freshness of the oracle)", "src + range does not overflow u64 (user-space addresses)"],
    "level_text": "Theorems for all target addresses, page sizes and kernel answer sequences: an accepted placement is strictly within +-128 MiB and is the only mapping kept; on panic nothing obtained is left mapped (C11_sound); the loop makes at most 2*range/page+1 probes (C11_terminates, C11_probe_bound); every accepted placement is encodable by the x86-64 entry branch and by the AArch64 B (C11_reach_x86, C11_reach_a64, through C01/C15). Correspondence: the unmodified allocator under scripted and real kernels, event log compared call by call.",
    "level_note": "Trusted: Lean kernel, shim, oracle freshness. Windows VirtualAlloc path not modelled. Bridge T_alloc: allocate_jit_memory_unix as translated from the source on this run (fuel-bounded loop, OS calls logged) equals Alloc.search for every target, page size and answer script; T_alloc_sound reads C11's range clause off the translated code.",
}

TABLE["C04"] = {
    "pipelines": [{"name": "threads", "cmd": ["threads"], "n_quick": 500, "n_thorough": 20000, "timeout": 900, "timeout_thorough": 3400}],
    "fail_keys": ["c04."],
    "trusted_base": TB_COMMON + ["std::sync::Mutex gives mutual exclusion and wakes a waiter on unlock (liveness/fairness assumed, not proved)", "Rust drop order: Drop::drop body, then fields in declaration order", "the global event log is appended while the guard is held, so its order is the real order of critical sections"],
    "rule": "T in {2,4,8,16} threads x N iterations each: PRNG choice of injector (1, 2, 32 or 64 installs of a thread-specific fake on one shared function, to widen the release window) or preventer, calls of the shared function before/after install, release by scope exit or by panic under catch_unwind; in-critical-section counter; one line per T. Distinct by line; non-trivial when the log shows hand-overs between different threads",
    "assumptions": ["mutex fairness/liveness", "no thread calls the shared function without holding a guard (the README's caller obligation)"],
    "level_text": "Theorems over the lock transition system for any number of threads and any interleaving (Reach): at most one holder (C04_excl); a preventer holder sees the original, an injector holder exactly its own fake or the original before installing (C04_preventer_sees_original, C04_injector_sees_own); whenever the mutex is free the function is original (C04_free_means_original); after release by drop or panic every idle thread can acquire (C04_handover, C04_release_completes). One inductive invariant (Lemmas/Lock.lean) parametrised by facts extracted from injector.rs (C04_source_good). Correspondence: real threads, trace checked against the LTS.",
    "level_note": "Partial by nature: mutex fairness and the scheduler are assumed; the stress run samples schedules, the theorem covers all of them for the model.",
}

TABLE["C05"] = {
    "pipelines": [{"name": "panics", "cmd": ["panics"], "n_quick": 400, "n_thorough": 20000, "timeout": 900, "timeout_thorough": 3400},
                  dict(HIST_PIPE, own_keys_only=["c05."])],
    "fail_keys": ["c05."],
    "trusted_base": MACHINE_TB + ["Rust unwinding semantics: destructors of the remaining Vec elements and struct fields still run after one of them panics; a panic while already unwinding aborts; std::thread::panicking()", "panic hook counts panics; resume_unwind does not invoke the hook"],
    "rule": "PRNG scripts of 0-7 operations per lifetime over three real Rust targets: raw installs, fake!(times: N) installs (N in 0..3), matching / non-matching calls, signature refusal through will_execute_raw and through will_execute (verifier already stored), null pointer, allocation failure (scripted mmap failing over the whole window), user panic; the first panic ends the body wherever it falls; 1-4 consecutive lifetimes per forked child; after each lifetime bytes and behaviour of all targets, the shim's owned mappings, and creation + use of a new injector from a fresh thread within a deadline; plus (borrowed histories, key c05.) refused installations in the histories leave every target and the guard list as they were -- incl. page-spanning entries installed while the OS serves exactly one more mprotect. Distinct by script; non-trivial when a panic occurs in the body or at scope exit",
    "assumptions": ["freshness of trampoline mappings", "panics in safe-ABI fakes unwind (extern \"C\" fakes abort by language rule and are outside the claim)"],
    "level_text": "Theorem C05_safe: for every body script (any order of installs, counted/rejected/plain calls, refusals, user panic; the first panic wherever it occurs, or none) the two-phase release of the injector (the Drop::drop body as read from the source, a panic inside it skipping the rest; then the fields in declaration order, a non-empty guard vector dropping oldest first) never aborts, raises at most one panic in total, frees the guard, and restores memory, mappings and guards (through C02_restores); C05_refused: a refused installation changes nothing; C05_exit_once: scope-exit verification panics exactly once iff some expectation is unsatisfied. Correspondence: real panics in forked children.",
    "level_note": "Trusted: Lean kernel, translator facts (verifier tests panicking(), gates precede patching, release order), unwinding semantics.",
}

SIG_PIPE = {"name": "sigs", "cmd": ["sigs"], "n_quick": 1, "n_thorough": 1, "timeout": 600}
SIG_RULE = ("a family of 57 function-pointer types (incl. types parameterised by char / integer / bool constants, and Poll / Option wrappers around function-pointer types next to those types themselves) differing in arity (0-3), one parameter type, return type, reference mutability, raw-pointer mutability, unsafety, ABI (Rust, C, system, C-unwind, system-unwind), "
            "including adversarial return types that end in `-> bool` (fn() -> bool, *const fn() -> bool, &dyn Fn() -> bool), a user type named bool, (bool,), Option<bool>, same-named types in different modules (v1::Cfg / v2::Cfg as reference parameter, return value and generic argument) and one differing only in letter case: "
            "rustc's type_name of every type vs the model's rendering; all 3249 ordered pairs through func!/func!, plus closure! and fake! replacements, typed-with-unchecked both ways, null pointers, "
            "all 36 ordered pairs of async output types, and the forced-boolean gate on every family type and on every string of up to 5 (thorough: 6) tokens over {fn ( ) -> bool u8 , & é} passed as the recorded signature text; pairs differing only in lifetime spelling are run but not judged; for C09 also every arm of fake! installed over a target written with the identical type (must be accepted). Exhaustive over the family")
TABLE["C09"] = {
    "pipelines": [SIG_PIPE, {"name": "arms", "kind": "armgen", "own_keys_only": ["c09."]}],
    "fail_keys": ["c09."],
    "filter_prefix": ["sigty", "sigpair", "sigmix", "signull", "sigasync", "armrun", "armhammer"],
    "trusted_base": TB_COMMON + ["std::any::type_name renders types by the token grammar of Model/Sig.lean with the spelling of Driver/SigD.spell (validated on the family; lifetimes and `for<..>` binders stripped before comparison)", "the step from distinct token lists to distinct strings"],
    "rule": SIG_RULE,
    "assumptions": ["rustc's rendering of types outside the family follows the same grammar"],
    "level_text": "Theorems: the gate is exactly equality of the recorded renderings (C09_gate); typed paired with unchecked is always refused because no rendered type is empty (C09_unchecked_mix); identical writing accepted; unsafety, ABI and reference mutability are visible in the rendering; gates precede patching and null is rejected (facts extracted from the source, C09_source). the rendering is injective on the whole grammar (C09_render_injective, mutual induction over types / argument lists / tuples / return parts with a follow-set invariant), hence the gate accepts iff the two function-pointer types are structurally identical (C09_gate_iff). The model's rendering is validated against rustc's type_name and the real macros on the exhaustive all-pairs family run.",
    "level_note": "Assumed: rustc renders types outside the family by the same grammar; distinct token lists spell distinct strings.",
}
TABLE["C10"] = {
    "pipelines": [SIG_PIPE, {"name": "enc-x86-debug", "cmd": ["enc-x86"], "n_quick": 10, "n_thorough": 10, "may_be_empty": True}, HIST_PIPE],
    "fail_keys": ["c10.", "c01.follow"],
    "filter_prefix": ["boolgate", "boolstr", "x86bool", "hist"],
    "trusted_base": TB_COMMON + [ISA_X86, "type_name grammar as for C09"],
    "rule": SIG_RULE + "; the stub bytes for both values run through the ISA fragment from a sentinel register file with a return address on the stack; boolean installs inside the install/drop histories are really called (value 0/1 observed)",
    "assumptions": ["x86-64 ISA fragment"],
    "level_text": "Theorems: for EVERY function-pointer type of the grammar the gate accepts iff the return type is bool (C10_gate: parenthesis-balance lemma over all renderings), the unchecked entry is refused, the pinned ends_with test is provably not equivalent (C10_endsWith_false); for every caller CPU state the installed stub returns to the caller with rax = v, rsp popped, all other registers, vector registers and flags unchanged, no store executed (C10_stub). Correspondence: gate on all family types incl. adversarial ones through the real API; stub bytes and real calls.",
    "level_note": "AArch64 stub is C15_bool; 32-bit ARM stub is a branch to return_true/return_false (covered by C16's entry theorems).",
}

TABLE["C14"] = {
    "pipelines": [ASYNC_PIPE],
    "fail_keys": ["c14."],
    "trusted_base": MACHINE_TB + ["rustc gives every concrete future type its own non-inlined `poll` (opt-level 0, as the README prescribes) and `fn() -> Poll<T>` is ABI-compatible with `poll(Pin<&mut F>, &mut Context)` for the outputs used, incl. by-memory ones: observed by the runs, not modelled", "hand-written executor counting polls"],
    "rule": "PRNG histories of 3-14 operations (fake site 0/1, await with random argument, drop+new injector) over seven sibling async functions: free fns and a method, by-value and by-reference parameters, outputs unit / u32 (two functions with the same output type) / String / u64 / a 72-byte struct with a heap field / bool; every history ends with a drop and an await of all seven; per await: poll count, value digest, body-run counter of the awaited function and of all others, value-expression evaluation counter. Each history in a forked child. Distinct by history; non-trivial when it contains a faked await",
    "assumptions": ["see trusted base: monomorphisation and ABI facts are observed, not proved"],
    "level_text": "Theorems: for every install history the poll entry last faked transfers control to the generated ready-function within four instructions before any original byte runs (C14_first_poll_reaches_value = C02_latest_wins at the poll entry), poll entries of sibling functions keep all their bytes (C14_siblings_untouched), after the drop every faked entry is byte-for-byte original (C14_after_drop), the async gate accepts iff the output types render identically (C14_gate), and in the await-level model a faked await completes on poll 1 with the latest value without running the body (C14_await_spec, C14_latest_and_drop). Correspondence: real async fns under a poll-counting executor.",
    "level_note": "Partial by nature (DESIGN section 6, C14): what rustc does with future types and the Poll<T> ABI is outside the model.",
}

TABLE["C13"] = {
    "pipelines": [{"name": "callconv", "cmd": ["callconv"], "n_quick": 400, "n_thorough": 100000, "timeout": 900, "timeout_thorough": 3400},
                  {"name": "enc-arm", "cmd": ["enc-arm"], "n_quick": 2000, "n_thorough": 100000, "timeout_thorough": 3000},
                  dict(HIST_PIPE, own_keys_only=["c13.", "c01.follow"]),
                  {"name": "enc-x86-debug", "cmd": ["enc-x86"], "n_quick": 30000, "n_thorough": 1000000, "timeout_thorough": 3000, "own_keys_only": ["c13."]}],
    "fail_keys": ["c13.", "a32.scratch", "a64.tramp.dest", "a64.long.dest", "c01.follow"],
    "filter_prefix": ["cc", "a32patch", "a64tramp", "a64long", "a64bool", "hist", "x86br"],
    "trusted_base": TB_COMMON + [ISA_X86, ISA_A64, ISA_A32, "System V x86-64 / AAPCS64 / AAPCS32 register roles as listed in Props/C13.lean", "the real CPU executes the x86-64 path in the assembly probe"],
    "rule": "x86-64 assembly probe: PRNG sentinels in rdi, rsi, rdx, rcx, r8, r9, xmm0-7, two stack arguments, rbx, rbp, r12-r15; the faked function is called; an assembly fake records what it receives and returns known rax, rdx, xmm0, xmm1; alternately a near fake (short trampoline) and a copy of the fake at 0x6100_0000_0000 (> 2 GiB from the trampoline: long form mov rax, imm64; jmp rax). when the CPU has AVX, the eight ymm registers loaded with 256-bit patterns and recorded by an AVX fake (System V passes __m256 in whole ymm registers), both forms. Rust-level shapes: 12 mixed integer/float arguments, 72-byte struct return (hidden slot), two-register return, float return. The Arm lines (registers written by the decoded sequences) come from the host-compiled arm64/arm sources. Distinct by sentinel vector",
    "assumptions": ["ISA fragments", "rax carries no argument in the property's register sets (note: %al is the vector-register count of variadic calls; faking a variadic function through the long form would clobber it)"],
    "level_text": "Theorems: on x86-64, for every placement and CPU state, control arrives at the fake with all six integer argument registers, all vector registers, callee-saved registers, rsp and flags unchanged and no store executed (C13_x86, from C01_reach); on AArch64 the trampoline writes only x9, the entry B nothing, the macOS long entry only x16 (C13_a64_*); on 32-bit ARM the callee-saved clause is proved false (C13_a32_callee_saved_false = finding F6, reported as KNOWN-FINDING). Correspondence: assembly probe on the real CPU for both trampoline forms.",
    "level_note": "Arm behaviour is from the manuals only (no hardware/emulator).",
}


# bridge modules (lean/InjModel/Tie/<name>.lean: function translated from the source = model function)
# whose theorems are proof obligations of a property
TIES = {
    "C01": ["X86", "Install", "InstallGeneral"], "C13": ["X86", "A64Emit"], "C10": ["X86", "Install", "SigText", "Interface"], "C11": ["Alloc", "A64Install", "InstallGeneral", "A64MAlloc"], "C12": ["Alloc", "Install", "Corollaries"],
    "C02": ["Install", "Interface"], "C03": ["Install", "Corollaries"], "C17": ["Install", "Corollaries", "MacFlush", "A64MEmit", "A64MInstall"], "C15": ["A64", "A64Emit", "A64Install", "A64Long", "A64MEmit", "A64MInstall"], "C16": ["A32", "Corollaries"],
    "C04": ["Interface"], "C05": ["Interface"], "C06": ["Interface"], "C07": ["Interface"], "C09": ["Interface"], "C14": ["Interface"],
}

# which properties a translator item matters to (prefix of "File.name" -> property ids); used to
# decide whose correspondence budget is enlarged when the item was not recognised in the source
MACHINE_PROPS = ["C01", "C02", "C03", "C05", "C10", "C12", "C13", "C14", "C17"]
FALLBACK_RELEVANCE = [
    ("Consts.x86", MACHINE_PROPS),
    ("Consts.jmp", MACHINE_PROPS), ("Consts.mov", MACHINE_PROPS),
    ("Consts.linuxMaxRange", ["C11"] + MACHINE_PROPS), ("Consts.macosMaxRange", ["C11", "C15"]),
    ("Consts.a64", ["C15", "C13", "C11"]), ("Consts.emit", ["C15", "C13"]), ("Consts.movz", ["C15", "C13"]), ("Consts.movk", ["C15", "C13"]),
    ("Consts.arm", ["C16", "C13"]),
    ("Layout.boolGate", ["C10", "C05"]),
    ("Layout.verifier", ["C05", "C06", "C07", "C04", "C02"]),
    ("Layout.counterResetOnInstall", ["C07", "C06"]),
    ("Layout.", ["C02", "C04", "C05", "C09", "C10", "C14", "C12", "C17"]),
    ("Fns.GenX86.allocate", ["C11"]), ("Fns.GenX86.generate_branch", ["C01", "C13"]), ("Fns.GenX86.generate_will_return", ["C10"]),
    ("Fns.GenMac", ["C17"]),
    ("Fns.GenWin", ["C11"]),
    ("Fns.GenIf", ["C02", "C04", "C05", "C06", "C07", "C09", "C10", "C14"]),
    ("Fns.GenX86", MACHINE_PROPS), ("Fns.GenA64", ["C15", "C13", "C11"]), ("Fns.GenA32", ["C16", "C13"]),
]


def relevant_fallback(pid, items):
    out = []
    for it in items:
        for pref, props in FALLBACK_RELEVANCE:
            if it.startswith(pref):
                if pid in props:
                    out.append(it)
                break
    return out
