"""Per-property configuration for ./check (pipelines, trusted base, generation rule)."""

TB_COMMON = [
    "Lean 4.33 kernel; axioms limited to propext, Quot.sound, Classical.choice (audited per theorem from #print axioms)",
    "statements in lean/InjModel/Props and the executable property predicates in lean/Driver",
    "translate/extract.py (Rust -> Generated/*.lean) and the correspondence harness (harness/: shim libc, shadow crate build.rs transformations, generators)",
    "all of /repo is modelled, not verified: the tie is the differential correspondence run on every check",
]
ISA_X86 = "hand-written x86-64 ISA fragment (E9 rel32, REX.W B8 imm64, FF E0, REX.W C7 C0 imm32, C3) in Model/X86.lean, validated against the real CPU by native runs"

TABLE = {}

TABLE["C01"] = {
    "pipelines": [
        {"name": "enc-x86-debug", "cmd": ["enc-x86"], "n_quick": 30000, "n_thorough": 2000000, "timeout_thorough": 3000},
        {"name": "enc-x86-release", "cmd": ["enc-x86"], "n_quick": 30000, "n_thorough": 2000000, "release": True, "timeout_thorough": 3000},
    ],
    "trusted_base": TB_COMMON + [ISA_X86],
    "rule": "structured boundary stream (14 anchor addresses x displacement {i32::MIN,i32::MAX,0,+-2^32} +- 7, overflow windows) followed by PRNG address pairs; a case is distinct by its (mode, ori, target) and non-trivial when the driver tags it short/long/panic (not bad-line)",
    "assumptions": ["x86-64 ISA fragment as transcribed from the SDM", "rustc debug/release overflow semantics as modelled by Mode"],
    "level_text": "Theorems: for all 64-bit (ori, target) and both build profiles the emitted branch, executed by an independent ISA fragment from any CPU state, lands exactly on target (or the encoder panicked and emitted nothing). The model is tied to patch_amd64.rs by calling the unmodified function on boundary-structured and random address pairs and comparing bytes; the landing predicate is also evaluated on the implementation's bytes.",
    "level_note": "Trusted: Lean kernel, the x86-64 ISA fragment, the shadow-crate build (source copied unmodified), the driver's parsing. Modelled not verified: all Rust code.",
}
