"""Per-property configuration for ./check (pipelines, trusted base, generation rule)."""

TB_COMMON = [
    "Lean 4.33 kernel; axioms limited to propext, Quot.sound, Classical.choice (audited per theorem from #print axioms)",
    "statements in lean/InjModel/Props and the executable property predicates in lean/Driver",
    "translate/extract.py (Rust -> Generated/*.lean) and the correspondence harness (harness/: shim libc, shadow crate build.rs transformations, generators)",
    "all of /repo is modelled, not verified: the tie is the differential correspondence run on every check",
]
ISA_X86 = "hand-written x86-64 ISA fragment (E9 rel32, REX.W B8 imm64, FF E0, REX.W C7 C0 imm32, C3) in Model/X86.lean, validated against the real CPU by native runs"

TABLE = {}

TABLE["C01"] = {
    "pipelines": [
        {"name": "enc-x86-debug", "cmd": ["enc-x86"], "n_quick": 30000, "n_thorough": 2000000, "timeout_thorough": 3000},
        {"name": "enc-x86-release", "cmd": ["enc-x86"], "n_quick": 30000, "n_thorough": 2000000, "release": True, "timeout_thorough": 3000},
    ],
    "trusted_base": TB_COMMON + [ISA_X86],
    "rule": "structured boundary stream (14 anchor addresses x displacement {i32::MIN,i32::MAX,0,+-2^32} +- 7, overflow windows) followed by PRNG address pairs; a case is distinct by its (mode, ori, target) and non-trivial when the driver tags it short/long/panic (not bad-line)",
    "assumptions": ["x86-64 ISA fragment as transcribed from the SDM", "rustc debug/release overflow semantics as modelled by Mode"],
    "level_text": "Theorems: for all 64-bit (ori, target) and both build profiles the emitted branch, executed by an independent ISA fragment from any CPU state, lands exactly on target (or the encoder panicked and emitted nothing). The model is tied to patch_amd64.rs by calling the unmodified function on boundary-structured and random address pairs and comparing bytes; the landing predicate is also evaluated on the implementation's bytes.",
    "level_note": "Trusted: Lean kernel, the x86-64 ISA fragment, the shadow-crate build (source copied unmodified), the driver's parsing. Modelled not verified: all Rust code.",
}

ISA_A64 = "hand-written A64 ISA fragment (MOVZ, MOVK, BR, RET, B, NOP, ADRP, ADD imm) in Model/A64.lean, transcribed from the Arm ARM; cannot be validated against hardware in this sandbox"
ISA_A32 = "hand-written A32/T32 fragment (LDR literal with Align(PC,4), BX interworking, Thumb NOP 46C0) in Model/A32.lean, transcribed from the Arm ARM; not validated against hardware"

TABLE["C15"] = {
    "pipelines": [
        {"name": "enc-arm", "cmd": ["enc-arm"], "n_quick": 4000, "n_thorough": 200000, "timeout_thorough": 3000},
    ],
    "trusted_base": TB_COMMON + [ISA_A64, "the arm64 sources are compiled for the x86-64 host with their first-line cfg stripped (macOS variant: target_os=\"macos\" replaced by all() in the two arm64 files)"],
    "rule": "emitters per field value; trampoline: each 16-bit chunk in each of 4 positions (every 257th value quick, exhaustive thorough) plus PRNG addresses; entry: 7 in-page offsets x displacements around +-128MiB, +-512MiB, +-2GiB, a band of word-aligned displacements across the +-128MiB limits, PRNG; macOS long jump: PRNG pc/target around the +-128MiB and +-4GiB limits. Distinct by the input part of the line; lines tagged a32* belong to C16 and are ignored here",
    "assumptions": ["A64 ISA fragment as transcribed", "user-space addresses below 2^63, instruction addresses word aligned (hypotheses of the theorems)"],
    "filter_prefix": ["a64"],
    "level_text": "Theorems for all 64-bit fake addresses / all word-aligned displacements: trampoline words decode to movz/movk x3/br x9 building exactly the fake address, entry word is a B landing exactly on the trampoline or the install is refused, macOS long form reaches the target within ADRP's range, only x9/x16 (x0 for the boolean) written. The emitter model is built from bit sequences and constants regenerated from the Rust source; the unmodified arm64 sources are run on the host and compared byte for byte, and the decode-and-follow predicate is evaluated on the implementation's bytes.",
    "level_note": "Trusted: Lean kernel, the A64 fragment (manual transcription, not hardware-validated), translator, shadow build. Not modelled: dsb/isb, macOS patch_function.",
}
TABLE["C16"] = {
    "pipelines": [
        {"name": "enc-arm", "cmd": ["enc-arm"], "n_quick": 4000, "n_thorough": 200000, "timeout_thorough": 3000},
    ],
    "trusted_base": TB_COMMON + [ISA_A32, "patch_arm.rs compiled for the x86-64 host (cfg stripped), arenas below 4 GiB so that `as u32` casts are faithful"],
    "rule": "three entry cases (A32; T32 at 0 mod 4; T32 at 2 mod 4) x fake state x page-end offsets + PRNG (entry offset, 32-bit fake address); distinct by (src, target); lines tagged a64* belong to C15 and are ignored here",
    "assumptions": ["A32/T32 fragment as transcribed", "AAPCS32 callee-saved set r4-r11, sp"],
    "filter_prefix": ["a32"],
    "level_text": "Theorems for all memories, all entry and fake addresses in each of the three entry cases: the word the literal load reads is the fake's address and BX reaches it in the right state; exactly 12 bytes at the Thumb-stripped entry are written. The callee-saved clause is proved FALSE of the code (C16_callee_full_false, witness replayed on the host-compiled bytes) and reported as known finding F6; the partial theorem bounds the damage to r9 / r7.",
    "level_note": "Trusted: Lean kernel, the A32/T32 fragment (not hardware-validated), translator, shadow build.",
}
